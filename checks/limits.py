"""C04: no Lua source or program can crash the embedding Go process.
(1) Limits.tla: program shapes x sizes around golua's encoding limits; allowed outcomes: ordinary error or the value the
    spec gives.  (2) exploration, labelled as such: every standard-library function x edge-value argument tuples, and seeded
    byte mutations of generated programs: the only acceptable outcomes are values, Lua errors or resource terminations."""
import json, os, re, sys, random
sys.path.insert(0, os.path.join(os.path.dirname(os.path.abspath(__file__)), "..", "lib"))
from vlib import *
import gate


def shape_src(s, n):
    seq = lambda f, sep=", ": sep.join(f(i) for i in range(1, n + 1))
    if s == "locals":
        return "local %s = %s\nreturn a1 + a%d" % (seq(lambda i: "a%d" % i), seq(str), n)
    if s == "upvalues":
        return "local %s = %s\nlocal function f() return a1 + a%d + 0 * (%s) end\nreturn f()" % (seq(lambda i: "a%d" % i), seq(str), n, seq(lambda i: "a%d" % i, " + "))
    if s == "constants":
        return "local t = {%s}\nreturn #t" % seq(lambda i: '"k%d"' % i)
    if s == "numconsts":
        return "local s = 0\n%s\nreturn s" % "\n".join("s = s + %d - %d" % (1000000 + i, 999999 + i) for i in range(1, n + 1))
    if s == "items-tail":
        return "local function f() return 7, 8, 9 end\nlocal t = {%s, f()}\nreturn #t" % seq(str)
    if s == "args":
        return "return select('#', %s)" % seq(str)
    if s == "params":
        return "local function f(%s) return p%d end\nreturn f(%s)" % (seq(lambda i: "p%d" % i), n, seq(str))
    if s == "returns":
        return "local function f() return %s end\nreturn select('#', f())" % seq(str)
    if s == "jump-forward":
        return "local x = 0\nif x == 1 then\n%s\nend\nreturn 7" % "\n".join("x = x + 1" for _ in range(n))
    if s == "jump-back":
        return "local x, k = 0, 0\nwhile k < 3 do\nk = k + 1\n%s\nend\nreturn k" % "\n".join("x = x + 1" for _ in range(n))
    if s == "big-function":
        return "local x = 0\n%s\nreturn x %% 1000" % "\n".join("x = x + 1" for _ in range(n))
    if s == "nest-do":
        return "do " * n + "return 5" + " end" * n
    if s == "nest-paren":
        return "return " + "(" * n + "5" + ")" * n
    if s == "nest-table":
        return "return #" + "{" * n + "}" * n
    if s == "nest-func":
        return "return " + "(function() return " * n + "5" + " end)()" * n
    if s == "nest-if":
        return "if true then " * n + "return 5" + " end" * n
    if s == "concat-chain":
        return "return #(" + " .. ".join('"x"' for _ in range(n)) + ")"
    if s == "index-chain":
        return ("local t = {v = 9}\nfor i = 1, %d do t = setmetatable({}, {__index = t}) end\nreturn t.v" % n)
    if s == "call-chain":
        return ("local f = function() return 4 end\nfor i = 1, %d do f = setmetatable({}, {__call = f}) end\nreturn f()" % n)
    if s == "pcall-depth":
        return ("local function d(k) if k == 0 then return 6 end local ok, v = pcall(d, k - 1) if not ok then error(v, 0) end return v end\nreturn d(%d)" % n)
    if s == "tostring-depth":
        return ("local function mk(k) return setmetatable({}, {__tostring = function() if k == 1 then return 'x' end return 'x' .. tostring(mk(k - 1)) end}) end\n"
                "return #tostring(mk(%d))" % n)
    if s == "lua-recursion":
        return "local function r(k) if k == 0 then return 0 end return 1 + r(k - 1) end\nreturn r(%d)" % n
    if s == "gsub-depth":
        return ("local function g(k) if k == 0 then return 'zz' end return (string.gsub('a', 'a', function() return g(k - 1) end)) end\nreturn #g(%d)" % n)
    if s == "long-string":
        return 'return #"%s"' % ("x" * n)
    if s == "long-name":
        nm = "v" * n
        return "local %s = 8\nreturn %s" % (nm, nm)
    if s == "bracket-level":
        eq = "=" * n
        return "return #[%s[ab]%s]" % (eq, eq)
    if s == "unpack":
        return "local t = {}\nfor i = 1, %d do t[i] = i end\nreturn select('#', table.unpack(t, 1, %d))" % (n, n)
    if s == "unary-chain":
        return "return " + "- " * n + "1"
    if s == "pow-chain":
        return "return math.tointeger(" + "1^" * n + "1)"
    if s == "nest-call":
        return "local function id(x) return x end\nreturn " + "id(" * n + "1" + ")" * n
    if s == "nest-index":
        return "local t = {1}\nreturn " + "t[" * n + "1" + "]" * n
    if s == "call-suffix":
        return "local function f() return f end\nreturn (f" + "()" * n + " == f) and 3 or 0"
    if s == "index-suffix":
        return "local t = {v = 8} t.a = t\nreturn t" + ".a" * n + ".v"
    if s == "method-suffix":
        return "local t = {v = 2} function t:m() return self end\nreturn t" + ":m()" * n + ".v"
    if s == "and-chain":
        return "return " + "true and " * n + "6"
    if s == "elseif-chain":
        return "local x = 1\nif x == 0 then return 0\n" + "elseif x == 0 then return 0\n" * n + "else return 9 end"
    if s == "nested-fn-chains":
        e = "T"      # the function expression sits at the deep (left) end of each chain of index suffixes
        for _ in range(n):
            e = "(function() return " + e + "[1]" * 5000 + " end)()"
        return "local T = {} T[1] = T\nreturn (" + e + ") == T and 5 or 0"
    if s in REC:
        return REC[s]
    raise Infra("unknown shape " + s)


def _bin(ev, op):
    return ("local mt = {} mt.%s = function(a, b) return a %s b end\nlocal x = setmetatable({}, mt)\nreturn x %s 1" % (ev, op, op))


# unbounded recursion through routes that nest the implementation's own stack (Limits.tla RecShapes): program text only
REC = {
    "rec-index": "local mt = {} mt.__index = function(t, k) return t[k] end\nlocal t = setmetatable({}, mt)\nreturn t.x",
    "rec-newindex": "local mt = {} mt.__newindex = function(t, k, v) t[k] = v end\nlocal t = setmetatable({}, mt)\nt.x = 1\nreturn 1",
    "rec-add": _bin("__add", "+"), "rec-sub": _bin("__sub", "-"), "rec-mul": _bin("__mul", "*"), "rec-div": _bin("__div", "/"),
    "rec-mod": _bin("__mod", "%"), "rec-pow": _bin("__pow", "^"), "rec-idiv": _bin("__idiv", "//"),
    "rec-band": _bin("__band", "&"), "rec-bor": _bin("__bor", "|"), "rec-bxor": _bin("__bxor", "~"), "rec-shl": _bin("__shl", "<<"),
    "rec-shr": _bin("__shr", ">>"), "rec-concat": _bin("__concat", ".."),
    "rec-unm": "local mt = {} mt.__unm = function(a) return -a end\nlocal x = setmetatable({}, mt)\nreturn -x",
    "rec-bnot": "local mt = {} mt.__bnot = function(a) return ~a end\nlocal x = setmetatable({}, mt)\nreturn ~x",
    "rec-len": "local mt = {} mt.__len = function(a) return #a end\nlocal x = setmetatable({}, mt)\nreturn #x",
    "rec-eq": "local mt = {} mt.__eq = function(a, b) return a == b end\nlocal x, y = setmetatable({}, mt), setmetatable({}, mt)\nreturn x == y",
    "rec-lt": "local mt = {} mt.__lt = function(a, b) return a < b end\nlocal x, y = setmetatable({}, mt), setmetatable({}, mt)\nreturn x < y",
    "rec-le": "local mt = {} mt.__le = function(a, b) return a <= b end\nlocal x, y = setmetatable({}, mt), setmetatable({}, mt)\nreturn x <= y",
    "rec-call-self": "local x = setmetatable({}, {}) getmetatable(x).__call = x\nreturn x()",
    "rec-call-pair": "local x, y = setmetatable({}, {}), setmetatable({}, {}) getmetatable(x).__call = y getmetatable(y).__call = x\nreturn x(1, 2)",
    "rec-call-cycle3": ("local a, b, c = setmetatable({}, {}), setmetatable({}, {}), setmetatable({}, {})\n"
                        "getmetatable(a).__call = b getmetatable(b).__call = c getmetatable(c).__call = a\nreturn (pcall(a)) and 1 or error('x')"),
    "rec-index-self": "local x = setmetatable({}, {}) getmetatable(x).__index = x\nreturn x.foo",
    "rec-newindex-self": "local x = setmetatable({}, {}) getmetatable(x).__newindex = x\nx.foo = 1\nreturn 1",
    "rec-tostring": "local mt = {} mt.__tostring = function(a) return tostring(a) end\nreturn tostring(setmetatable({}, mt))",
    "rec-close": "local mt = {}\nlocal function f() local x <close> = setmetatable({}, mt) end\nmt.__close = f\nf()\nreturn 1",
    "rec-sort": "local function c(a, b) table.sort({3, 2, 1}, c) return a < b end\ntable.sort({3, 2, 1}, c)\nreturn 1",
    "rec-gsub": "local function r(s) return (string.gsub(s, '.', r)) end\nreturn r('a')",
    "rec-pairs": "local mt = {} mt.__pairs = function(t) return pairs(t) end\nfor k in pairs(setmetatable({}, mt)) do end\nreturn 1",
    "rec-xpcall-handler": "local function h(e) error(e) end\nlocal ok = xpcall(error, h, 'x')\nif not ok then error('handler kept failing') end\nreturn 1",
    "rec-load-reader": "local function rd() return load(rd) end\nlocal f = load(rd)\nif not f then error('no chunk') end\nreturn 1",
    "rec-index-in-coroutine": ("local mt = {} mt.__index = function(t, k) return t[k] end\nlocal t = setmetatable({}, mt)\n"
                               "local ok, e = coroutine.resume(coroutine.create(function() return t.x end))\nif not ok then error(e, 0) end\nreturn 1"),
    "rec-add-via-pcall": ("local mt = {} mt.__add = function(a, b) local ok, v = pcall(function() return a + b end) if not ok then error(v, 0) end return v end\n"
                          "return setmetatable({}, mt) + 1"),
}


EDGE = ["nil", "true", "0", "-1", "1", "math.maxinteger", "math.mininteger", "2^53", "0.5", "-0.0", "0/0", "1/0", "-1/0", '""', '"a"', '"%"',
        '("x"):rep(300)', '"\\0\\255"', "{}", "{1, 2, 3}", "print", "coroutine.create(print)", "io.stdout", "setmetatable({}, {__index = function() error('boom') end})",
        "1e308", "2^63", "-2^63", '"10"', '"0x10"', '"%d%s%q"', '"[a-"', '"%b"', '"(()"', '"!17i3"', "1 << 62",
        '"<s8"', '"\\255\\255\\255\\255\\255\\255\\255\\127a"', '"xc9223372036854775807"', '"%99999999d"', '"%.99999999f"', '"z"', '"<i16"', '"!"',
        "math.maxinteger - 1", "math.mininteger + 1", "2^31", "-2^31", '"\\0"', '("a"):rep(70000)', "function() error() end", "math.huge", "-math.huge"]


def crash_why(o):
    if o.get("crash"):
        return "process crash: " + (o.get("stderr", "") or "")[-400:]
    if o.get("panic"):
        return "Go panic escaped: " + o["panic"][:300]
    if o.get("timeout"):
        return "hang"
    return None


def run(prop, tier):
    rep = Report(prop, tier, "exploration")
    cov = rep.cov
    cov.update(evaluations=0, distinct_nontrivial=0, limit_cases=0, limit_outcomes={}, library_calls=0, mutated_sources=0)
    drv = build_driver()
    rng = random.Random(seed())
    # ---------- (1) Limits.tla
    lines = []
    res = run_tlc("LimitsMC", "LimitsQ.cfg" if tier == "quick" else "LimitsT.cfg", timeout=600, on_line=lines.append, workers=2)
    cov["limits_spec_cases"] = len(lines)
    cases, meta = [], []
    for l in lines:
        n, s = l["n"], l["shape"]
        if n > 20000 and s in ("upvalues", "numconsts", "tostring-depth", "gsub-depth", "pcall-depth", "call-chain", "index-chain", "unpack", "returns", "args", "params", "items-tail", "locals"):
            if n > 100000:
                continue   # quadratic text or pointless beyond the limit
        src = shape_src(s, n)
        wrapped = "local f, e = load(%s)\nif not f then emit('compile-error') return end\nlocal r = table.pack(pcall(f))\nif r[1] then emit('ok', r[2]) else emit('runtime-error') end" % long_lua_string(src)
        cases.append({"id": len(cases), "src": wrapped, "timeout": 60000 if (n <= 100000 and s != "nested-fn-chains") else 400000, "cpu": 2000000000, "mem": 3000000000})
        meta.append(l)
        if l.get("div"):
            # a program without a value must end by an ordinary error also when no resource limit is set
            cases.append({"id": len(cases), "src": wrapped, "timeout": 240000})
            meta.append(dict(l, unlimited=True))
    outs = run_lua_cases(drv, cases, nproc=max(2, NCPU // 2))
    for i, l in enumerate(meta):
        o = outs[i]
        cov["limit_cases"] += 1
        cov["evaluations"] += 1
        why = crash_why(o)
        outcome = "crash"
        if why is None:
            if o.get("status") == "killed":
                outcome = "resource-termination"
            elif not o.get("ok") and not o["events"]:
                outcome = "error"      # the driver's own load of the wrapper failed: e.g. the wrapper is too big; ordinary error
            else:
                ev = o["events"][0] if o["events"] else [{"s": "none"}]
                outcome = ev[0].get("s")
                if outcome == "ok" and l.get("div"):
                    why = "value returned: a program that recurses without bound has no value"
                    outcome = "wrong"
                elif outcome == "ok":
                    got = ev[1] if len(ev) > 1 else None
                    if got != {"i": str(l["result"])}:
                        why = "wrong result: %s, the manual's value is %d" % (json.dumps(got), l["result"])
                        outcome = "wrong"
        key = "%s%s:%s" % (l["shape"], "(unlimited)" if l.get("unlimited") else "", outcome)
        cov["limit_outcomes"][key] = cov["limit_outcomes"].get(key, 0) + 1
        if why:
            rep.violation({"kind": "limit", "shape": l["shape"], "why": why.split(":")[0], "unlimited": bool(l.get("unlimited")), "nclass": ("<=255" if l["n"] <= 255 else "<=32767" if l["n"] <= 32767 else "<=65535" if l["n"] <= 65535 else ">65535")},
                          {"cmd": "lua-run", "shape": l["shape"], "n": l["n"], "src_head": shape_src(l["shape"], l["n"])[:300], "observed": {k: v for k, v in o.items() if k != "events"}, "why": why})
    cov["distinct_nontrivial"] = sum(1 for k in cov["limit_outcomes"] if not k.endswith(":ok"))
    # ---------- (2a) every library function x edge-value tuples (plain exploration)
    o = run_lua_cases(drv, [{"id": 0, "src": gate.SCANNER, "helpers": True, "sandbox": True, "timeout": 20000}])[0]
    inv = [e[1]["s"] for e in o.get("events", []) if e[3]["s"] not in ("exit",)]
    ntup = 40 if tier == "quick" else 400
    lcases = []
    for path in inv:
        tuples = [()] + [(a,) for a in EDGE] + [(a, b) for a in EDGE for b in EDGE] + [tuple(rng.choice(EDGE) for _ in range(rng.randint(3, 4))) for _ in range(ntup)]
        body = ["local f = %s" % path, "local n = 0"]
        for t in tuples:
            body.append("pcall(f%s) n = n + 1" % "".join(", " + a for a in t))
        body.append('emit("calls", n)')
        lcases.append({"id": len(lcases), "src": "\n".join(body), "sandbox": True, "timeout": 60000, "cpu": 300000000, "mem": 2000000000, "maxev": 10, "path": path, "ntup": len(tuples)})
    for limited in (True, False):
        # the same calls once under generous limits and once with no limit at all (some defects only show when no
        # budget check fires first); without limits a watchdog expiry is not held against the library
        run_cases = [{k: v for k, v in c.items() if k not in ("path", "ntup") and (limited or k not in ("cpu", "mem"))} for c in lcases]
        if not limited:
            for c in run_cases:
                c["timeout"] = 20000
        louts = run_lua_cases(drv, run_cases, nproc=max(2, NCPU // 2))
        for i, c in enumerate(lcases):
            o = louts[i]
            cov["library_calls"] += c["ntup"]
            cov["evaluations"] += c["ntup"]
            why = crash_why(o)
            if why and "hang" in why:
                if not limited:
                    continue
                why = "hang: %s did not return within 60 s under a CPU limit" % c["path"]
            if why:
                rep.violation({"kind": "library", "fn": c["path"].split('"')[-2] if '"' in c["path"] else c["path"], "why": why.split(":")[0], "limited": limited},
                              {"cmd": "lua-run", "function": c["path"], "limited": limited, "src_head": c["src"][:1500], "observed": {k: v for k, v in o.items() if k != "events"}, "why": why})
    # ---------- (2b) byte mutations of valid programs (plain exploration)
    import corpus
    items = corpus.build("quick", rng, n_each=25)
    mcases = []
    per = 20 if tier == "quick" else 200
    junk = [b"\x00", b"\xff", b"]]", b"[[", b"--[[", b'"', b"'", b"\\", b"\\x", b"\\u{", b"0x", b"1e", b"...", b"::", b"goto ", b"<close>", b"<const>", b"\r", b"=" * 3, b"(" * 50, b"{" * 50, b"end ", b"function ", b"~", b"//", b">>", b"#"]
    for it in items:
        src = it["src"].encode()
        for _ in range(per):
            b = bytearray(src)
            for _ in range(rng.randint(1, 4)):
                if len(b) < 2:
                    break
                pos = rng.randrange(len(b))
                op = rng.random()
                if op < 0.3:
                    del b[pos:pos + rng.randint(1, 8)]
                elif op < 0.6:
                    b[pos:pos] = rng.choice(junk)
                elif op < 0.8:
                    b[pos] = rng.randrange(256)
                else:
                    b = b[:pos]
            mcases.append({"id": len(mcases), "srchex": bytes(b).hex(), "timeout": 20000, "cpu": 5000000, "mem": 500000000})
    mouts = run_lua_cases(drv, mcases)
    for i, c in enumerate(mcases):
        cov["mutated_sources"] += 1
        cov["evaluations"] += 1
        why = crash_why(mouts[i])
        if why:
            rep.violation({"kind": "mutated-source", "why": why.split(":")[0]},
                          {"cmd": "lua-run", "srchex": c["srchex"], "observed": {k: v for k, v in mouts[i].items() if k != "events"}, "why": why})
    # ---------- (2c) byte mutations of binary chunks (string.dump output), loaded in mode "b" and then run
    seeds_src = ["local function f(a) local s = 'hello world constant' local t = {1, 2, 3} for i = 1, 3 do t[i] = t[i] + a end return s .. a, 1.5, 42, #t end emit(string.dump(f))",
                 "local up = 5 local function g(...) local n = select('#', ...) local function h() up = up + n return up end return h(), ... end emit(string.dump(g))",
                 "emit(string.dump(load('local t = setmetatable({}, {__index = function(t, k) return k end}) local x <close> = nil for k, v in pairs({a = 1}) do t[k] = v end return t.zz, 2^53, -0.0, \"\\0\\255\"')))"]
    douts = run_lua_cases(drv, [{"id": i, "src": sc, "timeout": 20000} for i, sc in enumerate(seeds_src)])
    dumps = []
    for i in range(len(seeds_src)):
        ev = (douts[i].get("events") or [[None]])[0][0]
        if not isinstance(ev, dict) or not ("s" in ev or "x" in ev):
            raise Infra("could not obtain a dump to mutate: %r" % (douts[i],))
        dumps.append(bytes.fromhex(ev["x"]) if "x" in ev else ev["s"].encode("latin-1"))
    bcases, bmeta = [], []
    nmut = 150 if tier == "quick" else 1500
    for di, d in enumerate(dumps):
        positions = list(range(len(d)))
        rng.shuffle(positions)
        for pos in positions[:nmut]:
            b = bytearray(d)
            b[pos] = rng.choice([0x00, 0x01, 0x7f, 0x80, 0xff, (b[pos] + 1) & 0xff, rng.randrange(256)])
            if rng.random() < 0.1:
                b = b[:pos]
            lit = "".join("\\x%02x" % c for c in b)
            src = ('local g = load("%s", "=m", "b")\nif not g then emit("rejected") return end\nemit("loaded")\n'
                   'local ok = pcall(g, 1, 2)\nemit("ran", ok)' % lit)
            bcases.append({"id": len(bcases), "src": src, "timeout": 20000, "cpu": 2000000, "mem": 200000000})
            bmeta.append((di, pos))
    bouts = run_lua_cases(drv, bcases)
    cov["mutated_binary_chunks"] = len(bcases)
    cov["mutated_binary_outcomes"] = {}
    for i, (di, pos) in enumerate(bmeta):
        o = bouts[i]
        cov["evaluations"] += 1
        evs = [e[0].get("s") for e in (o.get("events") or []) if e and isinstance(e[0], dict)]
        phase = "run" if "loaded" in evs else "load"
        why = crash_why(o)
        key = "%s:%s" % (phase, (why or (evs[-1] if evs else ("killed" if o.get("status") == "killed" else "none"))).split(":")[0])
        cov["mutated_binary_outcomes"][key] = cov["mutated_binary_outcomes"].get(key, 0) + 1
        if why:
            rep.violation({"kind": "mutated-binary", "phase": phase, "why": why.split(":")[0]},
                          {"cmd": "lua-run", "dump": di, "position": pos, "src_head": bcases[i]["src"][:400], "observed": {k: v for k, v in o.items() if k != "events"}, "why": why})
    rep.sample({"shape": "items-tail", "n": 256, "source_head": shape_src("items-tail", 256)[:120]})
    rep.sample({"library_edge_values": EDGE[:12]})
    cov["rule"] = ("limit cases: (shape, n) pairs enumerated by Limits.tla, non-trivial = outcome classes other than plain success; library calls: function x edge-value tuples; "
                   "mutated sources: seeded byte edits of generated programs")
    cov["explanation"] = "only the limit shapes are decided by a specification (Limits.tla gives the value a program must return if it is accepted); the rest is exploration with the oracle 'ordinary outcome'"
    rep.assumptions += ["totality over all byte strings / all argument tuples is explored, not model-checked"]
    return rep.finish()


def long_lua_string(s):
    lvl = 0
    while ("]" + "=" * lvl + "]") in s:
        lvl += 1
    # a leading newline inside a long bracket is dropped by the lexer: add one so the text is unchanged
    return "[" + "=" * lvl + "[\n" + s + "\n]" + "=" * lvl + "]"

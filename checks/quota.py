"""C07 / C05 / C06 (manager part): Quota.tla behaviours replayed on the real runtime-context manager."""
import json, os, sys
sys.path.insert(0, os.path.join(os.path.dirname(os.path.abspath(__file__)), "..", "lib"))
from vlib import *

MAXU = (1 << 64) - 1

# (cfg, scale K, description).  M, Sat come from the cfg constants below.
CONFIGS = {
    "quick": [
        ("QuotaApiQ.cfg", dict(M=16, K=1 << 60)),
        ("QuotaCallQ.cfg", dict(M=16, K=1 << 60)),
        ("QuotaApiSmallQ.cfg", dict(M=1 << 20, K=1)),
        ("QuotaTimeQ.cfg", dict(M=1 << 20, K=1)),
        ("QuotaCoQ.cfg", dict(M=1 << 20, K=1)),
    ],
    "thorough": [
        ("QuotaCpuApi.cfg", dict(M=16, K=1 << 60)),
        ("QuotaMemApi.cfg", dict(M=16, K=1 << 60)),
        ("QuotaCall.cfg", dict(M=16, K=1 << 60)),
        ("QuotaApiSmall.cfg", dict(M=1 << 20, K=1)),
        ("QuotaCallSmall.cfg", dict(M=1 << 20, K=1)),
        ("QuotaTime.cfg", dict(M=1 << 20, K=1)),
        ("QuotaTimeApi.cfg", dict(M=1 << 20, K=1)),
    ],
}


def cfg_consts(cfg):
    txt = open(os.path.join(SPEC, cfg)).read()
    import re
    sat = re.search(r"Sat\s*=\s*(TRUE|FALSE)", txt).group(1) == "TRUE"
    m = re.search(r"\bM\s*=\s*(\d+)", txt).group(1)
    return int(m), sat


def run(prop, tier, only_inv=None):
    rep = Report(prop, tier, "model_checking")
    drv = build_driver()
    cov = rep.cov
    cov.update(states=0, transitions=0, traces_validated_against_impl=0, leads=0, leads_confirmed=0,
               not_replayable_midpanic=0, configs=[])
    invs_seen = {}
    for cfg, p in CONFIGS[tier]:
        M, sat = cfg_consts(cfg)
        K = p["K"]

        def f(v, M=M, K=K, sat=sat):
            if sat and v == M - 1 and K > 1:
                return str(MAXU)
            return str(v * K)

        def fctx(c, f=f):
            if c.get("nil"):
                return {"nil": True}
            d = {k: f(c[k]) for k in ("hc", "hm", "sc", "sm", "uc", "um")}
            for k in ("hms", "sms", "ums"):      # milliseconds are never scaled
                d[k] = str(c[k])
            d["status"] = c["status"]
            d["flags"] = sorted(c["flags"])
            d["due"] = c["due"]
            return d

        def make_input(line, f=f):
            if line["exp"]["pan"] != "none":
                cov["not_replayable_midpanic"] += 1
                return None
            ops = []
            for a in line["h"]:
                o = {"op": a["op"]}
                if "n" in a:
                    o["n"] = str(a["n"]) if a["op"] == "tick" else f(a["n"])
                if "lv" in a:
                    o["lv"] = a["lv"]
                if "co" in a:
                    o["co"] = a["co"]
                if "err" in a:
                    o["err"] = a["err"]
                if "def" in a:
                    d = a["def"]
                    o["def"] = {"hc": f(d["hc"]), "hm": f(d["hm"]), "sc": f(d["sc"]), "sm": f(d["sm"]),
                                "hms": str(d["hms"]), "sms": str(d["sms"]), "flags": sorted(d["flags"])}
                ops.append(o)
            return {"h": ops}

        def on_result(line, inp, obs, fctx=fctx, cfg=cfg):
            cov["traces_validated_against_impl"] += 1
            exp = line["exp"]
            mism = None
            if obs.get("fail"):
                mism = {"field": "driver", "got": obs["fail"]}
            else:
                es = [fctx(c) for c in exp["stack"]]
                gs = [dict(c, flags=sorted(c.get("flags") or [])) for c in obs["stack"]]
                for c in gs:
                    c.pop("nil", None)
                if es != gs:
                    mism = {"field": "stack", "exp": es, "got": gs}
                elif exp["nframes"] != obs["nframes"]:
                    mism = {"field": "nframes", "exp": exp["nframes"], "got": obs["nframes"]}
                else:
                    el = dict(exp["last"])
                    if "ret" in el:
                        el["ret"] = fctx(el["ret"])
                    gl = dict(obs["last"])
                    if "ret" in gl and gl["ret"] is not None:
                        r = dict(gl["ret"])
                        if not r.get("nil"):
                            r["flags"] = sorted(r.get("flags") or [])
                            r.pop("nil", None)
                        else:
                            r = {"nil": True}
                        gl["ret"] = r
                    if el.get("op") == "init":
                        el = {"op": "init"}
                        gl = {"op": gl.get("op")} if gl.get("op") else {"op": "init"}
                    if el != gl:
                        mism = {"field": "last", "exp": el, "got": gl}
            lastop = line["h"][-1]["op"] if line["h"] else "init"
            if mism is not None:
                sig = {"kind": "divergence", "cfg": cfg, "op": lastop, "field": mism["field"]}
                if rep.violation(sig, {"cmd": "quota-replay", "input": inp, "expected": exp, "observed": obs,
                                       "mismatch": mism}):
                    pass
                return
            # the real manager is in exactly the model state: the model's invariant verdicts hold for it
            for v in line["viol"]:
                cov["leads_confirmed"] += 1
                invs_seen[v["inv"] + ":" + v["why"]] = invs_seen.get(v["inv"] + ":" + v["why"], 0) + 1
                sig = {"kind": "invariant", "inv": v["inv"], "why": v["why"], "op": lastop}
                rep.violation(sig, {"cmd": "quota-replay", "input": inp, "observed": obs, "invariant": v,
                                    "note": "real manager state equals the model state in which the invariant fails"})
            if len(line["h"]) >= 4:
                rep.sample({"history": inp["h"], "observed_stack": obs["stack"], "last": obs["last"]}, cap=3)

        br = BatchReplayer(drv, ["quota-replay"], make_input, on_result, batch=20000)

        def on_line(v, br=br):
            if v["viol"]:
                cov["leads"] += len(v["viol"])
            br.feed(v)

        to = 300 if tier == "quick" else 1500
        res = run_tlc("Quota", cfg, workers=NCPU, timeout=to, on_line=on_line)
        br.close()
        if res.violation:
            raise Infra("unexpected TLC verdict on %s: %s" % (cfg, res.violation))
        cov["states"] += res.distinct
        cov["transitions"] += res.generated
        cov["configs"].append({"cfg": cfg, "distinct": res.distinct, "generated": res.generated,
                               "replayed": br.n, "tlc_wall_s": round(res.wall, 1)})
        log("[%s] %s: %d distinct / %d transitions, %d replayed, %d skipped" % (prop, cfg, res.distinct, res.generated, br.n, br.skipped))
    cov["invariant_leads_by_kind"] = invs_seen
    # the nestings of callcontext / pcall / coroutines in generated programs (C07's quantifier): a lighter run of the
    # program-level machinery of C05 (hook traces validated by TLC against this same specification)
    import quotaprog
    quotaprog.program_level(rep, prop, tier, "cpu", drv, light=True)
    cov["exhaustive"] = True
    cov["explanation"] = ("every transition of the bounded Quota model replayed on the real runtimeContextManager through the "
                          "exported Runtime API (values scaled by 2^60 so that 4-bit saturation/wrap is 64-bit saturation/wrap, and "
                          "unscaled with a large modulus); projected state compared after the last action of every path")
    rep.assumptions += ["time limits are exercised through the exported API with the virtual clock of the verif hook (VerifNowHook); "
                        "Lua programs with wall-clock limits are not run", "work is only requested from a live context (checked on real traces by the C05 check)"]
    return rep.finish()

"""C13 (string.dump / load) and C14 (build options): relational conformance.  One specification behaviour per program
(from the TLA+ program generators, see corpus.py), several implementations of it: the chunk itself, load(string.dump(chunk)),
load(string.dump(load(string.dump(chunk)))) for C13; the driver built with each performance build-tag set for C14.
Every variant must conform to the specification's expected events, results and errors.
Round 2: (C13) the size family of spec/DumpSize.tla: program shapes scaled over the encoding boundaries, each run directly,
through dump / load, through a stripped dump, through dump / load / dump (stability) and as an inner closure;
(C13, C14) the chain programs of spec/DeadCo.tla: errors crossing Go functions inside coroutines, inspection of the dead
coroutines (status, traceback, getinfo, close) before and after further calls that reuse the pools."""
import json, os, re, sys, random
sys.path.insert(0, os.path.join(os.path.dirname(os.path.abspath(__file__)), "..", "lib"))
from vlib import *
import corpus

TAGSETS = [("default", ("verif",)), ("noregpool", ("verif", "noregpool")), ("nocontpool", ("verif", "nocontpool")),
           ("noregpool+nocontpool", ("verif", "noregpool", "nocontpool")), ("noquotas", ("verif", "noquotas")),
           ("safepool", ("verif", "safepool"))]


def strip(o):
    return {k: v for k, v in o.items() if k not in ("trace", "wall_ms", "id", "alloc_bytes", "stdout")}


def nclass(n):
    return "<=127" if n <= 127 else "<=200" if n <= 200 else "<=255" if n <= 255 else "<=1000" if n <= 1000 else "<=32767" if n <= 32767 else "<=65535" if n <= 65535 else ">65535"


DH_PRELUDE = '''
local function small(a) return (a or 41) + 1 end
local N = 100     -- few, long, distinct string constants: copying the constant table is cheap, marshalling them is not
local parts = {}
for i = 1, N do parts[i] = "'" .. string.rep(string.char(97 + i % 26), 2000) .. i .. "'" end
local big = load("local t = {" .. table.concat(parts, ",") .. "} return #t * 50")
local up = 3
local function upv() up = up + 4 return up end
local F = {small = small, big = big, upv = upv}
local FIRST = {small = string.dump(small), big = string.dump(big), upv = string.dump(upv)}
local FIRSTS = {small = string.dump(small, true), upv = string.dump(upv, true)}
local bigsize = #FIRST.big
local function behaves(name, d)
  local g = load(d, "=d", "b")
  if not g then return "reload-failed" end
  if name == "upv" then debug.setupvalue(g, 1, 3) end
  local ok, v = pcall(g)
  return ok and v or "error"
end
'''


def dh_render(l):
    out = [DH_PRELUDE]
    for op in l["h"]:
        k = op[0]
        if k == "dump":
            out.append('do local d = string.dump(F.%s) emit("dump", "%s", d == FIRST.%s, behaves("%s", d)) end' % (op[1], op[1], op[1], op[1]))
        elif k == "strip":
            out.append('do local d = string.dump(F.%s, true) emit("strip", "%s", d == FIRSTS.%s, behaves("%s", d)) end' % (op[1], op[1], op[1], op[1]))
        elif k == "gofn":
            out.append('emit("gofn", pcall(string.dump, print) and "dumped" or "refused")')
        elif k == "killmem":
            # the marshalling budget is 10 times the unused memory: a limit of m/40 of the size cuts the dump at about m/4 of it
            out.append('KILLED = (KILLED or 0) + (runtime.callcontext({kill = {memory = bigsize * %d // 40}}, function() return #string.dump(big) end).status == "killed" and 1 or 0) emit("killmem")' % op[2])
        elif k == "killcpu":
            out.append('KILLED = (KILLED or 0) + (runtime.callcontext({kill = {cpu = 2000}}, function() for i = 1, 100 do string.dump(big) end end).status == "killed" and 1 or 0) emit("killcpu")')
        else:
            raise Infra("DumpHist op " + k)
    out.append('emit("killed", KILLED or 0)')
    return "\n".join(out) + "\n"


def dump_histories(rep, drv, tier):
    """C13 over histories (DumpHist.tla): a dump does not depend on the dumps before it, completed, refused or terminated"""
    cov = rep.cov
    lines = []
    res = run_tlc("DumpHist", "DumpHistQ.cfg" if tier == "quick" else "DumpHistT.cfg", timeout=300, on_line=lines.append, workers=1)
    if res.violation:
        raise Infra("DumpHist: " + res.violation)
    cases = [{"id": i, "src": dh_render(l), "timeout": 120000} for i, l in enumerate(lines)]
    outs = run_lua_cases(drv, cases)
    cov["dump_histories"] = len(cases)
    bad = 0

    def tokv(x):
        return x if isinstance(x, bool) else ({"i": str(x)} if isinstance(x, int) else {"s": x})
    for i, l in enumerate(lines):
        o = outs[i]
        exp = [[tokv(x) for x in e] for e in l["exp"]]
        why = None
        if o.get("timeout") or o.get("crash") or o.get("panic"):
            why = "crash-or-hang"
        elif not o.get("ok"):
            why = "error"
        elif (o.get("events") or [])[:-1] != exp:
            got = (o.get("events") or [])[:-1]
            j = next((j for j in range(len(exp)) if j >= len(got) or got[j] != exp[j]), len(exp))
            why = "after-" + "+".join(sorted({op[0] for op in l["h"][:j] if op[0] in ("killmem", "killcpu", "gofn")})) if j < len(exp) else "extra-events"
        if not why:
            cov["dump_histories_with_a_terminated_dump"] = cov.get("dump_histories_with_a_terminated_dump", 0) + (1 if int(o["events"][-1][1]["i"]) > 0 else 0)
        if why:
            bad += 1
            rep.violation({"kind": "dump-history", "why": why, "op": l["h"][-1][0]},
                          {"cmd": "lua-run", "src": cases[i]["src"][-800:], "history": l["h"], "expected_events": exp, "observed": o})
    log("[%s] DumpHist: %d histories, %d mismatching" % (rep.prop, len(cases), bad))


def size_family(rep, drv, tier):
    """C13: DumpSize.tla.  One driver case per (shape, n); the wrapper runs every variant in turn and marks the sections."""
    cov = rep.cov
    items, res = corpus.build_dumpsize(tier)
    cases = [{"id": i, "src": it["src"], "timeout": 300000, "maxev": 2000} for i, it in enumerate(items)]
    outs = run_lua_cases(drv, cases, nproc=max(2, NCPU // 2), timeout_s=1800)
    vac, nrun, shapes = {}, 0, {}
    for i, it in enumerate(items):
        o = outs[i]
        got = corpus.ds_split(o.get("events", []))
        exps = it["variants"]
        broke = o.get("timeout") or o.get("crash") or o.get("panic")
        ref = got.get(exps[0]["v"])
        if ref is None or not corpus.ds_match(exps[0]["ev"], ref) or (broke and len(got) <= 1):
            # the source did not compile (an implementation limit: C04's domain) or the direct run itself deviates:
            # nothing to say about the round trip
            first = o["events"][0][0].get("s", "?") if o.get("events") and o["events"][0] and isinstance(o["events"][0][0], dict) else "?"
            reason = "not-compiled" if first == "not-compiled" else "crash-in-direct" if broke else "direct-deviates"
            vac[reason] = vac.get(reason, 0) + 1
            cov.setdefault("size_vacuous_cases", []).append("%s:%d:%s" % (it["shape"], it["n"], reason))
            continue
        shapes[it["shape"]] = shapes.get(it["shape"], 0) + 1
        for e in exps[1:]:
            nrun += 1
            g = got.get(e["v"])
            why = None
            if g is None:
                why = "crash" if broke else "missing"
            elif not corpus.ds_match(e["ev"], g):
                tag = g[0][0].get("s") if g and g[0] and isinstance(g[0][0], dict) else None
                if broke and len(g) < len(e["ev"]):
                    why = "crash"
                elif tag in ("reload-failed", "dump-failed", "runtime-error", "not-a-function", "inner-not-compiled"):
                    why = tag
                elif tag == "stable" and g[0] != [{"s": "stable"}, True, True]:
                    why = "dump-not-stable"
                else:
                    why = "events"
            elif e["v"] != "strip":
                # what the specification leaves open must still be what the function itself shows
                body = g[1:] if e["v"] == "redump" else g
                if body != ref:
                    why = "differs-from-direct"
            if why:
                cov["disagreements_checked"] += 1
                rep.violation({"kind": "size-roundtrip", "shape": it["shape"], "variant": e["v"], "why": why, "nclass": nclass(it["n"])},
                              {"cmd": "lua-run", "shape": it["shape"], "n": it["n"], "variant": e["v"], "why": why, "expected": e["ev"], "observed": g,
                               "direct": ref, "shape_src_head": it["shape_src_head"], "wrapper": corpus.DS_WRAPPER[:60] + "...",
                               "driver": {k: v for k, v in o.items() if k in ("panic", "timeout", "crash", "stderr", "errstr", "ok")}})
    cov.update(size_cases=len(items), size_cases_per_shape=shapes, size_vacuous=vac, size_variant_runs=nrun, size_spec_states=res.distinct)
    log("[C13] size family: %d (shape, n) cases, %d vacuous %s, %d variant runs compared" % (len(items), sum(vac.values()), vac, nrun))
    if sum(vac.values()) > len(items) * 2 // 5:
        raise Infra("the size family is mostly vacuous: %s" % vac)
    rep.sample({"size_family": [it["shape"] + ":" + str(it["n"]) for it in items[:6]], "variants": [e["v"] for e in items[0]["variants"]]})


def run(prop, tier):
    rep = Report(prop, tier, "translation_validation")
    cov = rep.cov
    rng = random.Random(seed())
    items = corpus.build(tier, rng)
    if prop == "C14":
        dc_items, dc_info = corpus.build_deadco(tier, rng, n_quick=700, n_sim=100)
    else:
        dc_items, dc_info = corpus.build_deadco("quick", rng, n_quick=250 if tier == "quick" else 1680, n_sim=40 if tier == "quick" else 300)
    items += dc_items
    cov.update(dc_info)
    cov.update(programs=0, disagreements_checked=0, variants=[], families={}, spec_expectations=len(items), stress_programs=len(corpus.STRESS))
    for it in items:
        cov["families"][it["family"]] = cov["families"].get(it["family"], 0) + 1
    if prop == "C13":
        drv = build_driver()
        variants = [("chunk", drv, {}), ("load(dump(chunk))", drv, {"mode": "dump"}), ("load(dump(load(dump(chunk))))", drv, {"mode": "dump2"})]
    else:
        variants = [(name, build_driver(tags=tags), {}) for name, tags in TAGSETS]
    results = {}
    skip = set()   # programs on which EVERY variant deviates from the spec: that is the owning property's finding
    whys = {}      # variant -> {program index -> why}
    for vi, (vname, drv, extra) in enumerate(variants):
        cases = [dict({"id": i, "src": it["src"], "timeout": 15000}, **extra) for i, it in enumerate(items)]
        cases += [dict({"id": len(items) + j, "src": src, "timeout": 30000}, **extra) for j, (nm, src, exp) in enumerate(corpus.STRESS)]
        outs = run_lua_cases(drv, cases)
        results[vname] = outs
        nbad = 0
        whys[vname] = {}
        for i, it in enumerate(items):
            o = outs[i]
            cov["programs"] += 1
            why = it["judge"](o)
            if why is None and extra.get("mode") and o.get("dump_stable") is False:
                why = {"kind": "dump-not-stable", "detail": "string.dump is not deterministic or dump(load(dump(f))) differs from dump(f)"}
            if why:
                whys[vname][i] = why
        for j, (nm, src, exp) in enumerate(corpus.STRESS):
            o = outs[len(items) + j]
            cov["programs"] += 1
            bad = None
            if o.get("timeout") or o.get("crash") or o.get("panic"):
                bad = "hang or crash: " + (o.get("panic") or o.get("stderr", "") or "timeout")[:200]
            elif not o.get("ok"):
                bad = "error: " + o.get("errstr", "")[:200]
            elif o["events"] != exp:
                bad = "events %s, expected %s" % (json.dumps(o["events"])[:200], json.dumps(exp)[:200])
            if bad:
                nbad += 1
                cov["disagreements_checked"] += 1
                rep.violation({"kind": "stress", "variant": vname, "program": nm}, {"cmd": "lua-run", "variant": vname, "src": src, "observed": strip(o), "why": bad})
        cov["variants"].append({"variant": vname, "programs": len(cases), "deviating_from_spec": len(whys[vname]), "stress_nonconforming": nbad})
        log("[%s] variant %s: %d programs, %d deviate from the specification, %d stress programs nonconforming" % (prop, vname, len(cases), len(whys[vname]), nbad))
    # A program on which every variant deviates from the specification is the owning property's finding (the variants
    # agree; their mutual agreement is checked below).  A deviation that only some variants show - the reference
    # included: a pool defect shows in the default build and not in the builds without pools - is this property's.
    for i, it in enumerate(items):
        dev = [vname for vname, _, _ in variants if i in whys[vname]]
        if len(dev) == len(variants):
            skip.add(i)
            fam = cov.setdefault("all_variants_deviate", {})
            fam[it["family"]] = fam.get(it["family"], 0) + 1
            if len(cov.setdefault("all_variants_deviate_samples", [])) < 5:
                cov["all_variants_deviate_samples"].append({"family": it["family"], "case": it.get("case"), "why": whys[dev[0]][i], "src_tail": it["src"][-300:]})
            continue
        for vname in dev:
            why = whys[vname][i]
            cov["disagreements_checked"] += 1
            rep.violation({"kind": why.get("kind", "mismatch"), "variant": vname, "family": it["family"], "tag": why.get("tag", "")},
                          {"cmd": "lua-run", "variant": vname, "src": it["src"], "observed": strip(results[vname][i]), "why": why, "case": it.get("case"),
                           "conforming_variants": [v for v, _, _ in variants if v not in dev]})
    if prop == "C13":
        size_family(rep, variants[0][1], tier)
        dump_histories(rep, variants[0][1], tier)
    if prop == "C14":
        # finalisers and releases under every build (the safepool tag selects the other finaliser-pool implementation):
        # GC scripts from GCGen.tla (incl. re-marking), events validated by TLC against GCTrace.tla per build
        import gcfin
        glines = []
        run_tlc("GCGen", "GCGenQ.cfg", timeout=900, on_line=glines.append)
        glines = [l for l in glines if len(l["h"]) >= 4]
        glines = rng.sample(glines, min(len(glines), 500 if tier == "quick" else 4000)) + gcfin.stress_scripts(rng, 6 if tier == "quick" else 60)
        # C14 is about the builds behaving alike: a script that the specification of C18 rejects in EVERY build in which
        # it runs is C18's business (it is reported there); only what some builds do and others do not is reported here
        found = {}     # script (by identity) -> {variant: (sig, replay)}
        ran = {}
        for vname, drv, extra in variants:
            use = glines if vname != "noquotas" else [l for l in glines if not any(a["a"] == "enter" for a in l["h"])]   # no runtime.callcontext without quotas
            for l in use:
                ran.setdefault(id(l), set()).add(vname)
            sink = lambda idx, sig, replay, use=use, vname=vname: found.setdefault(id(use[idx]), {}).setdefault(vname, (sig, replay))
            rej = gcfin.run_scripts(rep, drv, use, "gc-scripts@" + vname, extra_sig={"variant": vname}, sink=sink)
            cov["variants"].append({"variant": vname, "gc_scripts": len(use), "rejected": rej})
            log("[%s] variant %s: %d GC scripts, %d traces rejected" % (prop, vname, len(use), rej))
        # what the default build shows on a script is reported by the C18 check (which runs the same scripts on it);
        # here a build is reported when it does something else than the default build on the same script
        cov["gc_scripts_same_deviation_as_default"] = 0
        bare = lambda sg: json.dumps({k: v for k, v in sg.items() if k != "variant"}, sort_keys=True)
        refname = variants[0][0]
        for lid, per in found.items():
            d = per.get(refname)
            for vname in sorted(ran[lid] - {refname}):
                pv = per.get(vname)
                if pv is None and d is None:
                    continue
                if pv is not None and d is not None and bare(pv[0]) == bare(d[0]):
                    cov["gc_scripts_same_deviation_as_default"] += 1
                    continue
                if pv is not None:
                    rep.violation(pv[0], dict(pv[1], default_build=(d[0] if d else "conforms")))
                else:
                    rep.violation(dict(d[0], variant=refname, differs_from=vname), dict(d[1], note="the %s build conforms on this script, the default build does not" % vname))
    cov["reference_nonconforming_excluded"] = len(skip)
    if len(skip) > len(items) // 5:
        raise Infra("the reference variant deviates from the specification on %d of %d programs" % (len(skip), len(items)))
    # the variants must also agree with each other on everything observable (catches what the expectations leave open)
    ref = variants[0][0]
    for vname, _, _ in variants[1:]:
        for i in range(len(items) + len(corpus.STRESS)):
            if i < len(items) and items[i]["family"] == "table":
                continue   # traversal order is unspecified (hash seed per process): judged against the spec only
            a, b = results[ref][i], results[vname][i]
            ka = (json.dumps(a.get("events")), a.get("ok"), json.dumps(a.get("ret")), json.dumps(a.get("err")))
            kb = (json.dumps(b.get("events")), b.get("ok"), json.dumps(b.get("ret")), json.dumps(b.get("err")))
            if ka != kb:
                cov["disagreements_checked"] += 1
                src = items[i]["src"] if i < len(items) else corpus.STRESS[i - len(items)][1]
                # identity numbers of tables/functions and error positions are part of the comparison on purpose
                ea, eb = a.get("events") or [], b.get("events") or []
                j = next((j for j in range(min(len(ea), len(eb))) if ea[j] != eb[j]), min(len(ea), len(eb)))
                e = (ea[j] if j < len(ea) else eb[j] if j < len(eb) else None)
                tag = e[0].get("s", "") if e and isinstance(e[0], dict) else "" if e is not None else "outcome"
                rep.violation({"kind": "variants-disagree", "variant": vname, "ref": ref, "family": items[i]["family"] if i < len(items) else "stress", "tag": tag},
                              {"cmd": "lua-run", "src": src, "reference": strip(a), "variant_output": strip(b), "first_difference_at_event": j,
                               "case": items[i].get("case") if i < len(items) else None})
    rep.sample({"program": items[0]["src"][-600:], "family": items[0]["family"], "variants": [v[0] for v in variants]})
    cov["explanation"] = "each program's expected behaviour comes from the TLA+ program generators; every variant is judged against it and against the reference variant"
    return rep.finish()

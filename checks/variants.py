"""C13 (string.dump / load) and C14 (build options): relational conformance.  One specification behaviour per program
(from the TLA+ program generators, see corpus.py), several implementations of it: the chunk itself, load(string.dump(chunk)),
load(string.dump(load(string.dump(chunk)))) for C13; the driver built with each performance build-tag set for C14.
Every variant must conform to the specification's expected events, results and errors."""
import json, os, re, sys, random
sys.path.insert(0, os.path.join(os.path.dirname(os.path.abspath(__file__)), "..", "lib"))
from vlib import *
import corpus

TAGSETS = [("default", ("verif",)), ("noregpool", ("verif", "noregpool")), ("nocontpool", ("verif", "nocontpool")),
           ("noregpool+nocontpool", ("verif", "noregpool", "nocontpool")), ("noquotas", ("verif", "noquotas")),
           ("safepool", ("verif", "safepool"))]


def strip(o):
    return {k: v for k, v in o.items() if k not in ("trace", "wall_ms", "id", "alloc_bytes", "stdout")}


def run(prop, tier):
    rep = Report(prop, tier, "translation_validation")
    cov = rep.cov
    rng = random.Random(seed())
    items = corpus.build(tier, rng)
    cov.update(programs=0, disagreements_checked=0, variants=[], families={}, spec_expectations=len(items), stress_programs=len(corpus.STRESS))
    for it in items:
        cov["families"][it["family"]] = cov["families"].get(it["family"], 0) + 1
    if prop == "C13":
        drv = build_driver()
        variants = [("chunk", drv, {}), ("load(dump(chunk))", drv, {"mode": "dump"}), ("load(dump(load(dump(chunk))))", drv, {"mode": "dump2"})]
    else:
        variants = [(name, build_driver(tags=tags), {}) for name, tags in TAGSETS]
    results = {}
    skip = set()   # programs on which the reference variant itself deviates from the spec: that is the owning property's finding
    for vi, (vname, drv, extra) in enumerate(variants):
        cases = [dict({"id": i, "src": it["src"], "timeout": 15000}, **extra) for i, it in enumerate(items)]
        cases += [dict({"id": len(items) + j, "src": src, "timeout": 30000}, **extra) for j, (nm, src, exp) in enumerate(corpus.STRESS)]
        outs = run_lua_cases(drv, cases)
        results[vname] = outs
        nbad = 0
        for i, it in enumerate(items):
            o = outs[i]
            cov["programs"] += 1
            why = it["judge"](o)
            if vi == 0 and why is not None:
                skip.add(i)
                continue
            if i in skip:
                continue
            if why is None and extra.get("mode") and o.get("dump_stable") is False:
                why = {"kind": "dump-not-stable", "detail": "string.dump is not deterministic or dump(load(dump(f))) differs from dump(f)"}
            if why:
                nbad += 1
                cov["disagreements_checked"] += 1
                rep.violation({"kind": why.get("kind", "mismatch"), "variant": vname, "family": it["family"], "tag": why.get("tag", "")},
                              {"cmd": "lua-run", "variant": vname, "src": it["src"], "observed": strip(o), "why": why})
        for j, (nm, src, exp) in enumerate(corpus.STRESS):
            o = outs[len(items) + j]
            cov["programs"] += 1
            bad = None
            if o.get("timeout") or o.get("crash") or o.get("panic"):
                bad = "hang or crash: " + (o.get("panic") or o.get("stderr", "") or "timeout")[:200]
            elif not o.get("ok"):
                bad = "error: " + o.get("errstr", "")[:200]
            elif o["events"] != exp:
                bad = "events %s, expected %s" % (json.dumps(o["events"])[:200], json.dumps(exp)[:200])
            if bad:
                nbad += 1
                cov["disagreements_checked"] += 1
                rep.violation({"kind": "stress", "variant": vname, "program": nm}, {"cmd": "lua-run", "variant": vname, "src": src, "observed": strip(o), "why": bad})
        cov["variants"].append({"variant": vname, "programs": len(cases), "nonconforming": nbad})
        log("[%s] variant %s: %d programs, %d nonconforming" % (prop, vname, len(cases), nbad))
    if prop == "C14":
        # finalisers and releases under every build (the safepool tag selects the other finaliser-pool implementation):
        # GC scripts from GCGen.tla (incl. re-marking), events validated by TLC against GCTrace.tla per build
        import gcfin
        glines = []
        run_tlc("GCGen", "GCGenQ.cfg", timeout=900, on_line=glines.append)
        glines = [l for l in glines if len(l["h"]) >= 4]
        glines = rng.sample(glines, min(len(glines), 500 if tier == "quick" else 4000)) + gcfin.stress_scripts(rng, 6 if tier == "quick" else 60)
        for vname, drv, extra in variants:
            use = glines if vname != "noquotas" else [l for l in glines if not any(a["a"] == "enter" for a in l["h"])]   # no runtime.callcontext without quotas
            rej = gcfin.run_scripts(rep, drv, use, "gc-scripts@" + vname, extra_sig={"variant": vname})
            cov["variants"].append({"variant": vname, "gc_scripts": len(glines), "rejected": rej})
            log("[%s] variant %s: %d GC scripts, %d traces rejected" % (prop, vname, len(glines), rej))
    cov["reference_nonconforming_excluded"] = len(skip)
    if len(skip) > len(items) // 5:
        raise Infra("the reference variant deviates from the specification on %d of %d programs" % (len(skip), len(items)))
    # the variants must also agree with each other on everything observable (catches what the expectations leave open)
    ref = variants[0][0]
    for vname, _, _ in variants[1:]:
        for i in range(len(items) + len(corpus.STRESS)):
            if i < len(items) and items[i]["family"] == "table":
                continue   # traversal order is unspecified (hash seed per process): judged against the spec only
            a, b = results[ref][i], results[vname][i]
            ka = (json.dumps(a.get("events")), a.get("ok"), json.dumps(a.get("ret")), json.dumps(a.get("err")))
            kb = (json.dumps(b.get("events")), b.get("ok"), json.dumps(b.get("ret")), json.dumps(b.get("err")))
            if ka != kb:
                cov["disagreements_checked"] += 1
                src = items[i]["src"] if i < len(items) else corpus.STRESS[i - len(items)][1]
                # identity numbers of tables/functions and error positions are part of the comparison on purpose
                rep.violation({"kind": "variants-disagree", "variant": vname, "ref": ref},
                              {"cmd": "lua-run", "src": src, "reference": strip(a), "variant_output": strip(b)})
    rep.sample({"program": items[0]["src"][-600:], "family": items[0]["family"], "variants": [v[0] for v in variants]})
    cov["explanation"] = "each program's expected behaviour comes from the TLA+ program generators; every variant is judged against it and against the reference variant"
    return rep.finish()

"""C11 (round 2): ErrPos.tla programs - error values caught and raised again along a chain of functions living in
chunks with different names; every catcher / message handler / __close handler reports the value it receives and
the spec gives the exact text: position prefixes ("<chunk>:<line>: ") stacked by every raise, plus the payload.

Python renders the emitted chains as Lua (knowing the line of every call / raise site), runs them with lua-run and
compares for equality with the spec's segment sequences (optional / unspecified segments are marked by the spec)."""
import json, os, re, sys
sys.path.insert(0, os.path.join(os.path.dirname(os.path.abspath(__file__)), "..", "lib"))
from vlib import *

NT = 8           # tables T[1..NT] available as error values
PER_CASE = 40    # programs per driver case (one runtime)

CONFIGS = {
    "quick": [("ErrPosQ.cfg", None)],
    "thorough": [("ErrPosT.cfg", None), ("ErrPosSim.cfg", "num=400")],
}

RT_OPS = {
    "arith": "local _ = nil + 1",
    "call": "local _ = (nil)()",
    "index": "local _ = (nil).x",
    "compare": "local _ = nil < 1",
    "concat": 'local _ = nil .. "x"',
    "len": "local _ = #nil",
    "unm": "local _ = -{}",
    "forinit": 'for _ = "x", 1 do end',
    "lib": "string.rep()",
    "method": 'local _ = ("x"):nomethod()',
    "idiv0": "local _ = 1 // 0",
    "setnil": "T[1][nil] = 1",
    "bitfloat": "local _ = 1 & 1.5",
    "gometa": "local _ = setmetatable({}, {__index = string.rep}).x",
    "strarith": 'local _ = "x" + 1',
    "strunm": 'local _ = -"x"',
}


def lua_str(s):
    out = ['"']
    for ch in s:
        if ch == '"' or ch == "\\":
            out.append("\\" + ch)
        elif ch == "\n":
            out.append("\\n")
        elif 32 <= ord(ch) < 127:
            out.append(ch)
        else:
            out.append("\\%03d" % ord(ch))
    out.append('"')
    return "".join(out)


def value_expr(v):
    """Lua expression for an initial error value given as the spec's value record"""
    if v["str"]:
        parts = []
        for s in v["segs"]:
            if s["t"] == "txt":
                parts.append(lua_str(s["x"]))
            elif s["t"] == "cn":
                parts.append("NAMES[%d]" % s["c"])
            else:
                raise Infra("segment %r in an initial value" % (s,))
        return " .. ".join(parts) if parts else '""'
    t = v["tok"]
    if re.match(r"N\d+$", t):
        return t[1:]
    if t == "F15":
        return "1.5"
    if re.match(r"T\d+$", t):
        return "T[%s]" % t[1:]
    return {"NIL": "nil", "TRUE": "true", "FALSE": "false"}[t]


def act_stmt(l):
    a = l["act"]
    if a == "err":
        return "error(e)" if l["imp"] else "error(e, %d)" % l["lvl"]
    if a == "cat":
        return 'error(type(e) == "string" and "W: " .. e or e)'
    if a == "rt":
        return "local _ = e.x.y"
    if a == "assert":
        return "assert(false, e)"
    raise Infra("act " + a)


def handler_fn(P, i, hk):
    rep = 'emit("h", %d, %d, m)' % (P, i)
    if hk == "id":
        return "function(m) %s return m end" % rep
    if hk == "new":
        return 'function(m) %s return "H%d" end' % (rep, i)
    if hk == "cat":
        return 'function(m) %s return type(m) == "string" and "H: " .. m or m end' % rep
    if hk == "tbl":
        return "function(m) %s return T[%d] end" % (rep, i)
    if hk == "nil":
        return "function(m) %s return end" % rep
    if hk == "err":
        return "function(m) if not seen then seen = true %s end error(m) end" % rep
    raise Infra("handler " + hk)


def layer_body(P, i, l, iv):
    """list of (text, role or None) lines of the body of F[i]"""
    N = i + 1
    if "kind" in l:   # terminal
        k = l["kind"]
        if k == "rt":
            return [(RT_OPS[l["op"]], "raise")]
        if k == "assert":
            return [("assert(false, %s)" % value_expr(iv), "raise")]
        args = value_expr(iv) + ("" if l["imp"] else ", %d" % l["lvl"])
        f = l["form"]
        if f == "direct":
            s = "error(%s)" % args
        elif f == "inner":
            s = "do local _ = (function() error(%s) end)() end" % args
        elif f == "meta":
            s = "local _ = setmetatable({}, {__index = function() error(%s) end}).x" % args
        elif f == "iter":
            s = "for _ in function() error(%s) end do end" % args
        else:
            raise Infra("form " + f)
        return [(s, "raise")]
    inv = l["inv"]
    rep = 'emit("c", %d, %d, ok, e)' % (P, i)
    if inv == "call":
        return [("F[%d]()" % N, "call")]
    if inv == "tail":
        return [("return F[%d]()" % N, "call")]
    if inv == "tbc":
        return [("do local x <close> = mkc(function() F[%d]() end) end" % N, "call")]
    if inv == "wrap":
        return [("local w = coroutine.wrap(F[%d])" % N, None), ("w()", "call")]
    if inv == "tbcerr":
        return [('local x <close> = mkc(function(_, e) emit("t", %d, %d, e) error(e, %d) end)' % (P, i, l["lvl"]), "raise"),
                ("F[%d]()" % N, "call")]
    if inv == "pcall":
        return [("local ok, e = pcall(F[%d])" % N, "call"), (rep, None), (act_stmt(l), "raise")]
    if inv == "xpcall":
        pre = [("local seen = false", None)] if l["hk"] == "err" else []
        return pre + [("local ok, e = xpcall(F[%d], %s)" % (N, handler_fn(P, i, l["hk"])), "call"), (rep, None), (act_stmt(l), "raise")]
    if inv == "resume":
        return [("local co = coroutine.create(F[%d])" % N, None), ("local ok, e = coroutine.resume(co)", "call"), (rep, None),
                (act_stmt(l), "raise")]
    if inv == "close":
        return [("local co = coroutine.create(function() local x <close> = mkc(function() F[%d]() end) coroutine.yield() end)" % N, "call"),
                ("coroutine.resume(co)", None), ("local ok, e = coroutine.close(co)", None), (rep, None), (act_stmt(l), "raise")]
    raise Infra("inv " + inv)


PROBE = 'pcall(function() error("") end)'
NAMEPAT = '"^(.*):%d+: $"'


class Renderer:
    """assembles the main chunk of one driver case from several programs"""

    def __init__(self, chunktab):
        self.ct = {c["c"]: c for c in chunktab}
        self.lines = []
        self.put("T = {} for i = 1, %d do T[i] = {} end" % NT)
        self.put('emit("tables", 0, %s)' % ", ".join("T[%d]" % i for i in range(1, NT + 1)))
        self.put("mkc = function(f) return setmetatable({}, {__close = f}) end")
        self.put("NAMES = {}")
        self.put('do local ok, m = %s emit("probe", 0, 0, m) NAMES[0] = m:match(%s) end' % (PROBE, NAMEPAT))
        self.probe0 = len(self.lines)
        self.sites = {}    # P -> {(i, role): line, ("probe", c): line}

    def put(self, s):
        self.lines.append(s)
        return len(self.lines)

    def add(self, P, prog, iv):
        sites = {("probe", 0): self.probe0}
        self.sites[P] = sites
        self.put("F = {}")
        bych = {}
        for i, l in enumerate(prog, 1):
            bych.setdefault(l["ch"], []).append((i, l))
        for c in sorted(bych):
            if c == 0:
                put = self.put
            else:
                sub = [self.ct[c]["fl"],
                       'local ok, m = %s emit("probe", %d, %d, m) NAMES[%d] = m:match(%s)' % (PROBE, P, c, c, NAMEPAT)]
                sites[("probe", c)] = 2

                def put(s, sub=sub):
                    sub.append(s)
                    return len(sub)
            for i, l in bych[c]:
                put("F[%d] = function()" % i)
                for text, role in layer_body(P, i, l, iv):
                    n = put("  " + text)
                    if role:
                        sites[(i, role)] = n
                put("end")
            if c != 0:
                ent = self.ct[c]
                src = lua_str("\n".join(sub) + "\n")
                self.put("load(%s%s)()" % (src, (", " + lua_str(ent["arg"])) if ent["hasarg"] else ""))
        sites[(0, "call")] = self.put('emit("top", %d, pcall(F[1]))' % P)

    def source(self):
        return "\n".join(self.lines) + "\n"


# --------------------------------------------------------------------------
# comparison

UNKPOS = r"(?:[^\n]*?:-?\d+: )?"


def seg_regex(s, disp, sites, mode="exact"):
    t = s["t"]
    if t in ("pos", "optpos"):
        key = tuple(s["s"]) if s["s"][1] != "probe" else ("probe", s["c"])
        if mode == "anyline":
            r = re.escape(disp[s["c"]]) + r":-?\d+: "
        elif mode == "anychunk":
            r = r"[^\n]*?:-?\d+: "
        else:
            r = re.escape("%s:%d: " % (disp[s["c"]], sites[key]))
        if t == "optpos" or mode == "optional":
            r = "(?:" + r + ")?"
        if mode == "extra":
            r = r"(?:[^\n]*?:-?\d+: )*?" + r
        return r
    if t == "unkpos":
        return UNKPOS
    if t == "cn":
        return re.escape(disp[s["c"]])
    if t == "txt":
        return re.escape(s["x"])
    if t == "any":
        return ".*"
    raise Infra("segment %r" % (s,))


def value_regex(v, disp, sites, mode="exact"):
    return re.compile("".join(seg_regex(s, disp, sites, mode) for s in v["segs"]), re.S)


def exact_text(v, disp, sites):
    """the text of a string value whose segments are all determined, else None"""
    out = []
    for s in v["segs"]:
        t = s["t"]
        if t == "pos":
            key = tuple(s["s"]) if s["s"][1] != "probe" else ("probe", s["c"])
            out.append("%s:%d: " % (disp[s["c"]], sites[key]))
        elif t == "txt":
            out.append(s["x"])
        elif t == "cn":
            out.append(disp[s["c"]])
        else:
            return None
    return "".join(out)


def match_value(v, g, disp, sites, tmap):
    """None if the observed JSON value g is what the spec's value record v describes, else a classification"""
    if v["str"]:
        if not (isinstance(g, dict) and isinstance(g.get("s"), str)):
            return "not-a-string"
        txt = g["s"]
        ex = exact_text(v, disp, sites)
        if ex is not None:
            if ex == txt:
                return None
        elif value_regex(v, disp, sites).fullmatch(txt):
            return None
        for mode, why in (("anyline", "wrong-line"), ("anychunk", "wrong-position"), ("optional", "missing-position"),
                          ("extra", "extra-position")):
            if value_regex(v, disp, sites, mode).fullmatch(txt):
                return why
        return "value"
    t = v["tok"]
    if t == "ANY":
        return None
    if re.match(r"N\d+$", t):
        exp = {"i": t[1:]}
    elif t == "F15":
        return None if isinstance(g, dict) and g.get("f") == "1.5" else "value"
    elif re.match(r"T\d+$", t):
        exp = {"t": tmap.get(int(t[1:]), -1)}
    else:
        exp = {"NIL": None, "TRUE": True, "FALSE": False}[t]
    if exp == g:
        return None
    return "string-for-non-string" if isinstance(g, dict) and "s" in g else "value"


def choose_disp(ct, probes, sites):
    """chunk id -> display form in use, from the probe messages {c: observed JSON value}; (disp, bad chunk or None)"""
    disp = {}
    for c, g in probes.items():
        txt = g.get("s") if isinstance(g, dict) else None
        for d in sorted(ct[c]["disp"]):
            if txt == "%s:%d: " % (d, sites[("probe", c)]):
                disp[c] = d
        if c not in disp:
            return disp, c
    return disp, None


def compare(P, exp_events, got, ct, sites, tmap, probe0):
    """got: observed events of program P (in order).  Returns None or dict(tag, idx, diff, detail)."""
    probes = {0: probe0}
    for e in got:
        if len(e) == 4 and e[0] == {"s": "probe"} and isinstance(e[2], dict) and "i" in e[2]:
            probes[int(e[2]["i"])] = e[3]
    need = set([0] + [e[1] for e in exp_events if e[0] == "probe"])
    for c in need:
        if c not in probes:
            return {"tag": "probe", "idx": 0, "diff": "missing-event", "detail": "no probe event of chunk %d" % c}
    disp, bad = choose_disp(ct, {c: probes[c] for c in need}, sites)
    if bad is not None:
        return {"tag": "probe", "idx": 0, "diff": "chunk-display", "chunk": ct[bad]["arg"],
                "detail": "probe message of chunk %d is %s, expected <one of %s>:%d: " % (bad, json.dumps(probes[bad]), sorted(ct[bad]["disp"]),
                                                                                       sites[("probe", bad)])}
    for k, e in enumerate(exp_events):
        if k >= len(got):
            return {"tag": e[0], "idx": k, "diff": "missing-event", "detail": "missing event %d: %s" % (k, json.dumps(e)[:300])}
        g = got[k]
        want = [{"s": e[0]}, {"i": str(P)}] + list(e[1:])
        if len(g) != len(want):
            return {"tag": e[0], "idx": k, "diff": "event-shape", "detail": "event %d: expected %s got %s" % (k, json.dumps(e)[:300], json.dumps(g)[:300])}
        for x, y in zip(want, g):
            if isinstance(x, dict) and "str" in x:
                d = match_value(x, y, disp, sites, tmap)
                if d:
                    txt = value_regex(x, disp, sites).pattern if x["str"] else x["tok"]
                    return {"tag": e[0], "idx": k, "diff": d, "detail": "event %d (%s): expected %s got %s" % (k, e[0], txt, json.dumps(y)[:300])}
                continue
            if isinstance(x, bool) or x is None:
                ok = x is y
            elif isinstance(x, int):
                ok = y == {"i": str(x)}
            else:
                ok = x == y
            if not ok:
                gt = g[0].get("s", "") if g and isinstance(g[0], dict) else ""
                return {"tag": e[0], "idx": k, "diff": "event", "got_tag": gt,
                        "detail": "event %d: expected %s got %s" % (k, json.dumps(e)[:300], json.dumps(g)[:300])}
    if len(got) > len(exp_events):
        return {"tag": "extra", "idx": len(exp_events), "diff": "extra-event", "detail": "extra event %s" % json.dumps(got[len(exp_events)])[:300]}
    return None


def layer_name(l):
    if "kind" in l:
        k = l["kind"]
        return "%s:%s" % (k, l["op"] if k == "rt" else l["val"] + ("" if k == "assert" else ":L%s%s" % (l["lvl"], "" if l["form"] == "direct" else ":" + l["form"])))
    s = l["inv"]
    if l["inv"] == "xpcall":
        s += "(" + l["hk"] + ")"
    if l["inv"] == "tbcerr":
        s += ":L%d" % l["lvl"]
    if l["act"] != "-":
        s += "/" + l["act"] + (":L%d" % l["lvl"] if l["act"] == "err" else "")
    return s


PASS = ("call", "tail", "tbc")


def raise_points(prog, start):
    """layers (1-based indices) whose raises happen in the context that begins with the body of F[start], outermost first"""
    out = []
    for j in range(start, len(prog) + 1):
        l = prog[j - 1]
        if "kind" in l:
            out.append(j)
            break
        if l["inv"] in PASS:
            continue
        out.append(j)
        if l["inv"] != "tbcerr":
            break
    return out


def producer(prog, r):
    """a coroutine.wrap layer only passes the value on (plus an optional position): blame what is inside it"""
    while r < len(prog) and ("kind" not in prog[r - 1]) and prog[r - 1]["inv"] in PASS + ("wrap",):
        r += 1
    return r


def signature(prog, exp_events, why):
    """who observed the wrong value (tag) and which layer raised it; independent of chunks and of uninvolved layers"""
    tag = why["tag"]
    sig = {"family": "errpos", "diff": why["diff"], "tag": tag}
    if tag in ("c", "h", "t", "top") and why["idx"] < len(exp_events):
        ev = exp_events[why["idx"]]
        obs = ev[1] if tag != "top" else 0
        pts = raise_points(prog, obs + 1)
        r = pts[0] if pts else len(prog)
        if tag == "h":
            nth = sum(1 for e in exp_events[:why["idx"]] if e[0] == "h" and e[1] == obs)
            occ = pts[::-1]
            r = occ[min(nth, len(occ) - 1)] if occ else len(prog)
        sig["raiser"] = layer_name(prog[producer(prog, r) - 1])
    if "chunk" in why:
        sig["chunk"] = why["chunk"]
    return sig


def split_events(o):
    """events of a case grouped by program id (second field)"""
    by = {}
    for e in o.get("events", []):
        if len(e) >= 2 and isinstance(e[1], dict) and "i" in e[1]:
            by.setdefault(int(e[1]["i"]), []).append(e)
    return by


def run_batch(drv, ct, items):
    """items: list of (prog, iv, ev).  Returns list of why-or-None, and the case outputs for crash detection."""
    cases, rends, groups = [], [], []
    for b in range(0, len(items), PER_CASE):
        grp = items[b:b + PER_CASE]
        r = Renderer(ct_list(ct))
        for k, (prog, iv, ev) in enumerate(grp, 1):
            r.add(k, prog, iv)
        rends.append(r)
        groups.append(grp)
        cases.append({"id": len(cases), "src": r.source(), "timeout": 20000, "maxev": 100000})
    outs = run_lua_cases(drv, cases)
    res = []
    for ci, grp in enumerate(groups):
        o = outs[ci]
        r = rends[ci]
        dead = None
        if o.get("timeout"):
            dead = {"tag": "case", "idx": 0, "diff": "hang", "detail": "the case did not finish"}
        elif o.get("crash") or o.get("panic"):
            dead = {"tag": "case", "idx": 0, "diff": "crash", "detail": (o.get("panic") or o.get("stderr", ""))[:400]}
        by = split_events(o)
        t0 = by.get(0, [])
        tmap = {}
        probe0 = None
        for e in t0:
            if e[0] == {"s": "tables"}:
                tmap = {i + 1: v.get("t") for i, v in enumerate(e[2:]) if isinstance(v, dict)}
            if e[0] == {"s": "probe"}:
                probe0 = e[3]
        for k, (prog, iv, ev) in enumerate(grp, 1):
            if dead:
                res.append(dict(dead))
                continue
            why = compare(k, ev, by.get(k, []), ct, r.sites[k], tmap, probe0)
            if why is None and not o.get("ok") and k == len(grp):
                why = {"tag": "case", "idx": 0, "diff": "outcome", "detail": "the main chunk ended with %s" % str(o.get("errstr"))[:200]}
            res.append(why)
    return res


def run_solo(drv, ct, bad):
    """re-run each mismatching program alone (one runtime each); returns list of (why or None, output, source)"""
    rends, cases = [], []
    for prog, iv, ev, why in bad:
        r = Renderer(ct_list(ct))
        r.add(1, prog, iv)
        rends.append(r)
        cases.append({"id": len(cases), "src": r.source(), "timeout": 20000, "maxev": 100000})
    outs = run_lua_cases(drv, cases) if cases else {}
    res = []
    for k, (prog, iv, ev, why) in enumerate(bad):
        o, r = outs[k], rends[k]
        if o.get("timeout"):
            res.append(({"tag": "case", "idx": 0, "diff": "hang", "detail": "the program did not finish"}, o, cases[k]["src"]))
            continue
        if o.get("crash") or o.get("panic"):
            res.append(({"tag": "case", "idx": 0, "diff": "crash", "detail": (o.get("panic") or o.get("stderr", ""))[:400]}, o, cases[k]["src"]))
            continue
        by = split_events(o)
        tmap, probe0 = {}, None
        for e in by.get(0, []):
            if e[0] == {"s": "tables"}:
                tmap = {i + 1: v.get("t") for i, v in enumerate(e[2:]) if isinstance(v, dict)}
            if e[0] == {"s": "probe"}:
                probe0 = e[3]
        w2 = compare(1, ev, by.get(1, []), ct, r.sites[1], tmap, probe0)
        if w2 is None and not o.get("ok"):
            w2 = {"tag": "case", "idx": 0, "diff": "outcome", "detail": "the main chunk ended with %s" % str(o.get("errstr"))[:200]}
        res.append((w2, o, cases[k]["src"]))
    return res


def ct_list(ct):
    return [ct[c] for c in sorted(ct)]


def check(rep, drv, tier):
    """run the ErrPos configurations of `tier`, registering mismatches in rep; fills rep.cov['errpos']"""
    cov = rep.cov.setdefault("errpos", {"configs": [], "programs": 0, "by_depth": {}, "by_inv": {}, "by_term": {}, "reraises_with_position": 0,
                                        "multi_chunk_programs": 0, "stacked_prefixes_max": 0})
    for cfg, sim in CONFIGS[tier]:
        state = {"ct": None, "n": 0, "bad": 0, "seen": set(), "badlist": []}
        buf = []

        def process(items):
            ct = state["ct"]
            if ct is None:
                raise Infra("ErrPos emitted no chunk table")
            whys = run_batch(drv, ct, items)
            bad = []
            for (prog, iv, ev), why in zip(items, whys):
                state["n"] += 1
                cov["programs"] += 1
                d = str(len(prog))
                cov["by_depth"][d] = cov["by_depth"].get(d, 0) + 1
                for l in prog[:-1]:
                    cov["by_inv"][l["inv"]] = cov["by_inv"].get(l["inv"], 0) + 1
                    if l["act"] in ("err", "cat") and l["lvl"] > 0:
                        cov["reraises_with_position"] += 1
                tk = prog[-1]["kind"]
                cov["by_term"][tk] = cov["by_term"].get(tk, 0) + 1
                if len(set(l["ch"] for l in prog)) > 1:
                    cov["multi_chunk_programs"] += 1
                top = ev[-1][2]
                if top["str"]:
                    cov["stacked_prefixes_max"] = max(cov["stacked_prefixes_max"], sum(1 for s in top["segs"] if s["t"] == "pos"))
                if why:
                    bad.append((prog, iv, ev, why))
                elif len(prog) >= 3:
                    rep.sample({"errpos_program": [layer_name(l) + "@c%d" % l["ch"] for l in prog]}, cap=4)
            state["badlist"] += bad
            state["bad"] += len(bad)

        def on_line(v):
            if "chunks" in v:
                state["ct"] = {c["c"]: c for c in v["chunks"]}
                return
            buf.append((v["p"], v["iv"], v["ev"]))
            if len(buf) >= 4000:
                futs.append(pool.submit(process, buf[:]))
                del buf[:]

        import concurrent.futures as cf
        pool = cf.ThreadPoolExecutor(max_workers=1)   # programs run while TLC is still enumerating
        futs = []
        depth = None
        if sim:
            txt = open(os.path.join(SPEC, cfg)).read()
            depth = int(re.search(r"MaxLayers\s*=\s*(\d+)", txt).group(1)) + 2
        res = run_tlc("ErrPosMC", cfg, timeout=3600, on_line=on_line, simulate=sim, depth=depth, workers=1 if sim else None)
        if res.violation:
            raise Infra("ErrPos design-level check failed on %s: %s" % (cfg, res.violation))
        if buf:
            futs.append(pool.submit(process, buf[:]))
        for f in futs:
            f.result()
        pool.shutdown()
        # every mismatch is reproduced alone (one program per runtime) before it is reported
        ct = state["ct"]
        CAP = 600
        confirmed = run_solo(drv, ct, state["badlist"][:CAP])
        for k, (prog, iv, ev, why) in enumerate(state["badlist"]):
            names = [layer_name(l) + "@c%d" % l["ch"] for l in prog]
            if k >= CAP:
                rep.violation(signature(prog, ev, why), {"cmd": "lua-run", "why": why, "program": names, "note": "not re-run alone (cap reached)"})
                continue
            w2, o, src = confirmed[k]
            if w2 is None:
                sig = dict(signature(prog, ev, why), only_in_batch=True)
                w2 = why
            else:
                sig = signature(prog, ev, w2)
            key = json.dumps(sig, sort_keys=True)
            replay = {"cmd": "lua-run", "why": w2, "program": names}
            if key not in state["seen"]:
                state["seen"].add(key)
                replay.update(src=src, layers=prog, expected_events=ev, observed=o)
            rep.violation(sig, replay)
        if state["n"] == 0:
            raise Infra("ErrPos %s emitted no program" % cfg)
        rep.cov["states"] = rep.cov.get("states", 0) + res.distinct
        rep.cov["transitions"] = rep.cov.get("transitions", 0) + res.generated
        rep.cov["traces_validated_against_impl"] = rep.cov.get("traces_validated_against_impl", 0) + state["n"]
        cov["configs"].append({"cfg": cfg, "distinct": res.distinct, "generated": res.generated, "programs": state["n"],
                               "mismatching": state["bad"], "tlc_wall_s": round(res.wall, 1)})
        log("[%s] %s: %d distinct, %d programs run, %d mismatching" % (rep.prop, cfg, res.distinct, state["n"], state["bad"]))
    rep.assumptions += [
        "the printable form of a chunk name in positions is either the name verbatim (golua) or the reference implementation's "
        "luaO_chunkid form; it is observed by a probe error per chunk and must be used consistently",
        "coroutine.wrap and assert may or may not add a position to a string error value (the manual does not say; the reference "
        "implementation does); the caller of a __close handler (error level 2 inside it) is not defined",
        "an error raised by a message handler makes xpcall fail with an unspecified value",
    ]


def run(prop, tier):
    rep = Report(prop, tier, "model_checking")
    rep.cov.update(states=0, transitions=0, traces_validated_against_impl=0)
    drv = build_driver()
    check(rep, drv, tier)
    return rep.finish()

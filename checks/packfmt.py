"""C17: value serialisation round trips.

  pack    Pack.tla      string.pack / unpack / packsize: packed BYTES, unpacked values, next position, size, error-vs-no-error
  quote   Quote.tla     string.format('%q', v): load() round trip on the real code + the spec's lexer Denote() over the observed text
  printf  Printf.tla    %d %i %u %c %x %X %o %s with flags, width and precision: text equality
  tonum   (law)         tonumber(tostring(n)) == n on the lattice the spec supplies (checked on the real code only)

Python renders values the spec emitted as Lua literals and compares decoded results for equality; all expected results
come from TLC.
"""
import json, os, re, sys, struct
sys.path.insert(0, os.path.join(os.path.dirname(os.path.abspath(__file__)), "..", "lib"))
from vlib import *

# --------------------------------------------------------------------------
# rendering of spec values as Lua source


def limbs_to_int(l):
    return int.from_bytes(bytes(l), "little", signed=True)


def lua_int(v):
    if v == -(1 << 63):
        return "math.mininteger"
    return "(%d)" % v if v < 0 else str(v)


def lua_bytes(b):
    return '"' + "".join("\\%03d" % x for x in b) + '"'


def lua_val(v):
    t = v["t"]
    if t == "i":
        return lua_int(limbs_to_int(v["l"]))
    if t == "s":
        return lua_bytes(v["b"])
    if t == "f":
        return "(%s)" % v["id"]
    raise Infra("unknown value %r" % (v,))


def got_bytes(g):
    """driver string value -> bytes, or None when g is not a string"""
    if isinstance(g, dict):
        if "s" in g:
            return g["s"].encode("utf-8")
        if "x" in g:
            return bytes.fromhex(g["x"])
    return None


def same_val(exp, g):
    """spec value == driver value"""
    t = exp["t"]
    if t == "i":
        return isinstance(g, dict) and g.get("i") == str(limbs_to_int(exp["l"]))
    if t == "s":
        return got_bytes(g) == bytes(exp["b"])
    if t == "f":
        return isinstance(g, dict) and g.get("bits") == struct.pack(">d", float(exp["id"])).hex()
    return False


def show(g):
    return json.dumps(g)[:300]


def lua_chunks(drv, srcs, maxev):
    """run chunks; returns list of event lists; a chunk that fails as a whole is an infrastructure problem"""
    cases = [{"id": i, "src": s, "maxev": maxev, "timeout": 120000} for i, s in enumerate(srcs)]
    outs = run_lua_cases(drv, cases)
    res = []
    for i in range(len(cases)):
        o = outs[i]
        if o.get("crash") or o.get("panic"):
            res.append({"crash": (o.get("panic") or o.get("stderr", ""))[:2000], "events": o.get("events", [])})
        elif o.get("timeout"):
            res.append({"hang": True, "events": o.get("events", [])})
        elif not o.get("ok"):
            raise Infra("generated chunk failed: %s\n%s" % (o.get("errstr"), srcs[i][:1500]))
        else:
            res.append({"events": o["events"]})
    return res


def wrap_chunk(stmts, per=200):
    """many statements in one chunk, split over functions (golua's compiler cannot address more than 32767 constants per
    function: a chunk with more panics with 'index out of range [-32768]')"""
    out = ["local emit, pcall, string, load, tostring, tonumber, math = emit, pcall, string, load, tostring, tonumber, math"]
    for i in range(0, len(stmts), per):
        out.append(";(function()\n" + "\n".join(stmts[i:i + per]) + "\nend)()")
    return "\n".join(out)


# --------------------------------------------------------------------------
# pack

PACK_CFGS = {
    "quick": [("PackAQ.cfg", "A2"), ("PackBQ.cfg", "B3"), ("PackUnp.cfg", "U")],
    "thorough": [("PackAQ.cfg", "A2"), ("PackAT.cfg", "A3"), ("PackBT.cfg", "B4"), ("PackUnp.cfg", "U")],
}
PER_CHUNK = 1500


def probe_native(drv):
    src = ('emit(string.packsize("h"), string.packsize("i"), string.packsize("l"), string.packsize("T"), '
           'string.packsize("!bI16") - 16, string.pack("=I2", 1) == "\\1\\0", string.packsize("H"), string.packsize("I"), '
           'string.packsize("L"), string.packsize("j"), string.packsize("f"), string.packsize("d"), string.packsize("n"))')
    ev = lua_chunks(drv, [src], 10)[0]["events"][0]
    n = [int(x["i"]) if isinstance(x, dict) else x for x in ev]
    nat = {"NatShort": n[0], "NatInt": n[1], "NatLong": n[2], "NatSizeT": n[3], "NatAlign": n[4], "NatLittle": n[5]}
    for k in ("NatShort", "NatInt", "NatLong", "NatSizeT", "NatAlign"):
        if nat[k] not in (1, 2, 4, 8, 16):
            raise Infra("implausible native size %s = %r" % (k, nat[k]))
    if n[6] != n[0] or n[7] != n[1] or n[8] != n[2] or n[9:] != [8, 4, 8, 8]:
        raise Infra("native size probe inconsistent: %r" % (n,))
    consts = {k: str(v) for k, v in nat.items()}
    consts["NatLittle"] = "TRUE" if nat["NatLittle"] else "FALSE"
    return nat, consts


def pack_render(k, c):
    """Lua statements for one Pack case"""
    f = "".join(c["f"])
    if '"' in f or "\\" in f:
        raise Infra("format needs escaping: %r" % f)
    F = '"%s"' % f
    out = []
    if "data" in c:     # directed unpack case
        out.append('emit(%d,"u",pcall(string.unpack,%s,%s))' % (k, F, lua_bytes(c["data"])))
        return out
    args = "".join("," + lua_val(v) for v in c["vs"])
    out.append('emit(%d,"p",pcall(string.pack,%s%s))' % (k, F, args))
    out.append('emit(%d,"z",pcall(string.packsize,%s))' % (k, F))
    if c["short"]["on"]:
        out.append('emit(%d,"m",pcall(string.pack,%s%s))' % (k, F, "".join("," + lua_val(v) for v in c["vs"][:-1])))
    if c["zeros"]["on"]:
        out.append('emit(%d,"0",pcall(string.unpack,%s,%s))' % (k, F, lua_bytes([0] * 40)))
    if c["pack"]["ok"]:
        b = c["pack"]["bytes"]
        out.append('emit(%d,"u",pcall(string.unpack,%s,%s))' % (k, F, lua_bytes(b)))
        if c["trunc"]["on"]:
            out.append('emit(%d,"t",pcall(string.unpack,%s,%s))' % (k, F, lua_bytes(b[:-1])))
        if c["off"]["on"]:
            out.append('emit(%d,"o",pcall(string.unpack,%s,%s,2))' % (k, F, lua_bytes([85] + b)))
    return out


def cmp_unpack(exp, got):
    """exp: spec's Unpack record; got: [ok, v1.., next] from pcall. Returns None or (why, detail)"""
    if not exp["ok"]:
        if got[0] is True:
            return ("no-error", "expected an error (%s at %s), got %s" % (exp.get("why"), exp.get("at"), show(got[1:])))
        return None
    if got[0] is not True:
        return ("unexpected-error", "expected values, got error %s" % show(got[1:]))
    vals = got[1:]
    if len(vals) != len(exp["vals"]) + 1:
        return ("value-count", "expected %d values and a position, got %s" % (len(exp["vals"]), show(vals)))
    for j, e in enumerate(exp["vals"]):
        if not same_val(e, vals[j]):
            return ("value", "value %d: expected %s got %s" % (j + 1, lua_val(e), show(vals[j])))
    if vals[-1] != {"i": str(exp["next"])}:
        return ("next-position", "expected next position %d got %s" % (exp["next"], show(vals[-1])))
    return None


def pack_sig_base(c):
    f = c["f"]
    fmt = "".join(f)
    # value-carrying option tokens (letter + digits), for labelling only
    opts = re.findall(r"X?[a-zA-Z][0-9]*", fmt)
    vopts = [o for o in opts if not o.startswith("X") and o[0] in "bBhHlLjJTiIfdnsSzc"]
    vclass = ""
    ints = [limbs_to_int(v["l"]) for v in c.get("vs", []) if v["t"] == "i"]
    if len(ints) == 1:
        vclass = "neg" if ints[0] < 0 else "nonneg"
    strs = [v["b"] for v in c.get("vs", []) if v["t"] == "s"]
    if len(strs) == 1 and not ints:
        vclass = "empty" if not strs[0] else "nonempty"
    return {"part": "pack", "opts": ",".join(vopts), "vclass": vclass, "bang": "!" in fmt, "X": "X" in fmt}


def pack_compare(c, evs, viol):
    """evs: dict tag -> event payload (list after the tag). viol(sig_extra, detail)"""
    def v(fn, why, detail, reason="", at=""):
        viol({"fn": fn, "why": why, "reason": reason, "at": at}, detail)

    if "data" in c:
        r = cmp_unpack(c["unp"], evs["u"])
        if r:
            v("unpack", r[0], r[1], c["unp"].get("why", ""), c["unp"].get("at", ""))
        return
    p = evs["p"]
    ep = c["pack"]
    if ep["ok"]:
        if p[0] is not True:
            v("pack", "unexpected-error", "expected bytes %s, got error %s" % (bytes(ep["bytes"]).hex(), show(p[1:])))
        else:
            gb = got_bytes(p[1]) if len(p) == 2 else None
            if gb != bytes(ep["bytes"]):
                v("pack", "bytes", "expected %s got %s" % (bytes(ep["bytes"]).hex(), gb.hex() if gb is not None else show(p)))
    elif p[0] is True:
        v("pack", "no-error", "expected an error (%s at %s), got %s" % (ep["why"], ep["at"], show(p[1:])), ep["why"], ep["at"])
    z = evs["z"]
    ez = c["size"]
    if ez["ok"]:
        if z[0] is not True:
            v("packsize", "unexpected-error", "expected %d, got error %s" % (ez["n"], show(z[1:])))
        elif z[1:] != [{"i": str(ez["n"])}]:
            v("packsize", "value", "expected %d got %s" % (ez["n"], show(z[1:])))
    elif z[0] is True:
        v("packsize", "no-error", "expected an error (%s at %s), got %s" % (ez["why"], ez["at"], show(z[1:])), ez["why"], ez["at"])
    if c["short"]["on"] and evs["m"][0] is True:
        v("pack", "no-error", "a value is missing, got %s" % show(evs["m"][1:]), "novalue", "")
    if c["zeros"]["on"]:
        r = cmp_unpack(c["zeros"]["r"], evs["0"])
        if r:
            v("unpack", "zeros-" + r[0], r[1], c["zeros"]["r"].get("why", ""), c["zeros"]["r"].get("at", ""))
    if ep["ok"]:
        r = cmp_unpack(c["unp"], evs["u"])
        if r:
            v("unpack", r[0], r[1])
        if c["trunc"]["on"]:
            r = cmp_unpack(c["trunc"]["r"], evs["t"])
            if r:
                v("unpack", "truncated-" + r[0], r[1], c["trunc"]["r"].get("why", ""), c["trunc"]["r"].get("at", ""))
        if c["off"]["on"]:
            r = cmp_unpack(c["off"]["r"], evs["o"])
            if r:
                v("unpack", "init2-" + r[0], r[1])


def run_pack(rep, drv, tier, workers):
    cov = rep.cov
    nat, consts = probe_native(drv)
    cov["pack_native"] = nat
    cov["pack_configs"] = []
    klass = cov.setdefault("pack_classes", {})
    import threading
    import concurrent.futures as cf
    lock = threading.Lock()
    pool = cf.ThreadPoolExecutor(max_workers=2)
    for cfg, label in PACK_CFGS[tier]:
        st = {"n": 0, "bad": 0, "lawbad": 0}

        per_chunk = 1 if label == "U" else PER_CHUNK      # directed cases run one per runtime: a crash is attributed exactly

        def process(lines, per_chunk=per_chunk):
            srcs, groups = [], []
            for i in range(0, len(lines), per_chunk):
                grp = lines[i:i + per_chunk]
                stmts = []
                for k, c in enumerate(grp):
                    stmts += pack_render(k, c)
                srcs.append(wrap_chunk(stmts))
                groups.append(grp)
            outs = lua_chunks(drv, srcs, 8 * PER_CHUNK)
            with lock:
                compare(groups, outs, srcs)

        def compare(groups, outs, srcs):
            for grp, o, src in zip(groups, outs, srcs):
                byk = {}
                for e in o["events"]:
                    byk.setdefault(int(e[0]["i"]), {})[e[1]["s"]] = e[2:]
                if "crash" in o or "hang" in o:
                    # the first case without complete events is the culprit; the cases after it were not run
                    done = [k for k, c in enumerate(grp) if len(byk.get(k, {})) == len(pack_render(k, c))]
                    k = len(done)
                    if not o["events"] and len(grp) > 1:
                        raise Infra("generated chunk did not start: %s" % o.get("crash", "hang")[:500])
                    c = grp[k]
                    sig = pack_sig_base(c)
                    sig.update(fn="unpack" if "data" in c else "pack/unpack", why="crash" if "crash" in o else "hang",
                               reason=c["unp"].get("why", "") if "data" in c else "", at=c["unp"].get("at", "") if "data" in c else "")
                    rep.violation(sig, {"cmd": "lua-run", "kind": "pack", "format": "".join(c["f"]), "spec": c, "detail": o.get("crash", "hang"),
                                        "src": "\n".join(pack_render(0, c))})
                    st["bad"] += 1
                    st["notrun"] = st.get("notrun", 0) + len(grp) - k - 1
                    grp = grp[:k]
                for k, c in enumerate(grp):
                    st["n"] += 1
                    if "law" in c and not c["law"]:
                        st["lawbad"] += 1
                    key = ("unp:" if "data" in c else "pack:") + ("ok" if (c.get("pack") or c["unp"])["ok"] else
                                                                   "error:" + (c.get("pack") or c["unp"]).get("why", ""))
                    klass[key] = klass.get(key, 0) + 1
                    base = pack_sig_base(c)

                    def viol(extra, detail, c=c, k=k, base=base):
                        sig = dict(base)
                        sig.update(extra)
                        st["bad"] += 1
                        rep.violation(sig, {"cmd": "lua-run", "format": "".join(c["f"]),
                                            "values": [lua_val(x) for x in c.get("vs", [])], "spec": c, "detail": detail, "kind": "pack",
                                            "src": "\n".join(pack_render(0, c))})
                    pack_compare(c, byk.get(k, {}), viol)
                    if st["n"] % 50000 == 1:
                        rep.sample({"format": "".join(c["f"]), "values": [lua_val(x) for x in c.get("vs", [])],
                                    "spec_pack": c.get("pack"), "real": byk.get(k, {}).get("p")}, cap=6)

        buf = []
        futs = []

        def submit():
            futs.append(pool.submit(process, buf[:]))
            del buf[:]
            while len(futs) > 2:          # bound the memory: at most two batches in flight while TLC keeps producing
                futs.pop(0).result()

        def on_line(v):
            buf.append(v)
            if len(buf) >= 60000:
                submit()

        try:
            res = run_tlc("PackMC", cfg, timeout=3000, on_line=on_line, consts=consts, workers=workers)
            if buf:
                submit()
            for f in futs:
                f.result()
        finally:
            for f in futs:
                f.cancel()
        if res.violation:
            raise Infra("Pack.tla: the spec's own round-trip law failed (%s on %s): fix the spec" % (res.violation, cfg))
        if st["lawbad"]:
            raise Infra("Pack.tla emitted %d cases with law = FALSE" % st["lawbad"])
        cov["states"] += res.distinct
        cov["transitions"] += res.generated
        cov["traces_validated_against_impl"] += st["n"]
        cov["pack_configs"].append({"cfg": cfg, "label": label, "distinct": res.distinct, "cases": st["n"], "mismatching": st["bad"],
                                    "tlc_wall_s": round(res.wall, 1)})
        log("[%s] %s: %d distinct, %d cases compared, %d mismatching (%.0fs)" % (rep.prop, cfg, res.distinct, st["n"], st["bad"], res.wall))


# --------------------------------------------------------------------------
# %q

QUOTE_CFGS = {"quick": ["QuoteStrQ.cfg", "QuoteNum.cfg"], "thorough": ["QuoteStrT.cfg", "QuoteStrT4.cfg", "QuoteNum.cfg"]}


def float_bits(g):
    return g.get("bits") if isinstance(g, dict) else None


def run_quote(rep, drv, tier, workers, tonum=True):
    cov = rep.cov
    cases = []
    for cfg in QUOTE_CFGS[tier]:
        res = run_tlc("QuoteMC", cfg, timeout=1500, consts={"ObsFile": '"none"'}, workers=workers)
        if res.violation:
            raise Infra("Quote.tla: the spec's own law Denote(Quote(s)) = s failed (%s on %s): fix the spec" % (res.violation, cfg))
        cases += res.emitted
        cov["states"] += res.distinct
        cov["transitions"] += res.generated
        log("[%s] %s: %d cases, spec law holds (%.0fs)" % (rep.prop, cfg, len(res.emitted), res.wall))
    # 1. the real code: quote, load, compare
    stmts = []
    for k, c in enumerate(cases):
        v = lua_bytes(c["s"]) if c["k"] == "str" else lua_int(limbs_to_int(c["l"])) if c["k"] == "int" else "(%s)" % c["e"]
        stmts.append('do local v = %s local ok, q = pcall(string.format, "%%q", v) if not ok then emit(%d, "fmterr", q) else '
                     'local f, e = load("return " .. q) if not f then emit(%d, "loaderr", q, v) else emit(%d, "ok", q, v, pcall(f)) end end end'
                     % (v, k, k, k))
    outs = []
    per = 4000
    srcs = [wrap_chunk(stmts[i:i + per]) for i in range(0, len(stmts), per)]
    for o in lua_chunks(drv, srcs, per + 10):
        if "crash" in o or "hang" in o:
            raise Infra("the %%q chunk did not complete: %s" % (o.get("crash", "hang"),))
        outs += o["events"]
    if len(outs) != len(cases):
        raise Infra("%%q: %d events for %d cases" % (len(outs), len(cases)))
    # 2. the spec's lexer over the observed texts
    obs_path = os.path.join(scratch(), "quote-obs.ndjson")
    idx = []
    with open(obs_path, "w") as f:
        for k, (c, e) in enumerate(zip(cases, outs)):
            if e[1]["s"] == "fmterr":
                continue
            q = list(got_bytes(e[2]))
            rec = {"k": c["k"], "q": q}
            if c["k"] == "str":
                rec["s"] = c["s"]
            elif c["k"] == "int":
                rec["l"] = c["l"]
            f.write(json.dumps(rec) + "\n")
            idx.append(k)
    res = run_tlc("QuoteMC", "QuoteObs.cfg", timeout=1500, consts={"ObsFile": json.dumps(obs_path)}, workers=workers)
    if res.violation:
        raise Infra("QuoteObs: %s" % res.violation)
    if len(res.emitted) != len(idx):
        raise Infra("QuoteObs: %d verdicts for %d observed texts" % (len(res.emitted), len(idx)))
    den = {idx[v["i"] - 1]: v for v in res.emitted}
    cov["states"] += res.distinct
    cov["transitions"] += res.generated
    cov["quote_texts_lexed_by_spec"] = len(idx)
    klass = cov.setdefault("quote_classes", {})
    nbad = 0
    for k, (c, e) in enumerate(zip(cases, outs)):
        kind = c["k"]
        klass[kind] = klass.get(kind, 0) + 1
        cov["traces_validated_against_impl"] += 1
        status = e[1]["s"]
        qb = got_bytes(e[2]) if len(e) > 2 else None
        why = None
        if status == "fmterr":
            why = ("format-error", "string.format('%%q', v) raised %s" % show(e[2:]))
        elif status == "loaderr":
            why = ("load-error", "the text %r is not accepted by load" % qb)
        else:
            v, ok = e[3], e[4]
            r = e[5] if len(e) > 5 else None
            if ok is not True:
                why = ("load-error", "running the loaded text %r failed: %s" % (qb, show(e[5:])))
            elif kind == "str":
                if got_bytes(r) != bytes(c["s"]):
                    why = ("value", "%r reads back as %s" % (qb, show(r)))
            elif kind == "int":
                if r != {"i": str(limbs_to_int(c["l"]))}:
                    why = ("type-float" if isinstance(r, dict) and "f" in r else "value", "%r reads back as %s" % (qb, show(r)))
            else:
                if not (isinstance(v, dict) and "f" in v):
                    raise Infra("lattice expression %s is not a float: %s" % (c["e"], show(v)))
                if v["f"] == "nan":
                    if not (isinstance(r, dict) and r.get("f") == "nan"):
                        why = ("value", "nan: %r reads back as %s" % (qb, show(r)))
                elif isinstance(r, dict) and "i" in r:
                    why = ("subtype-int", "float %s: %r reads back as the integer %s" % (v["f"], qb, r["i"]))
                elif float_bits(r) != v["bits"]:
                    why = ("bits", "float %s: %r reads back as %s" % (v["f"], qb, show(r)))
        d = den.get(k)
        label = {"dwhy": "", "ch": ""}
        if d is not None and not d["good"]:
            dd = d["den"]
            label = {"dwhy": dd.get("why", "value" if kind == "str" else dd.get("kind", "")), "ch": chr(dd["ch"]) if dd.get("ch") else ""}
            if why is None:
                why = ("spec-lexer-only", "load accepts %r with the right value but the spec's lexer says %s" % (qb, show(dd)))
        elif why is not None and d is not None:
            label = {"dwhy": "accepted-by-spec-lexer", "ch": ""}
        if why:
            nbad += 1
            sig = {"part": "quote", "kind": kind, "why": why[0]}
            sig.update(label)
            if kind == "float":
                sig["expr"] = c["e"]
            if kind == "int":
                sig["val"] = str(limbs_to_int(c["l"]))
            val = lua_bytes(c["s"]) if kind == "str" else lua_int(limbs_to_int(c["l"])) if kind == "int" else c["e"]
            rep.violation(sig, {"cmd": "lua-run", "kind": "quote", "detail": why[1], "value": val, "observed_text_hex": qb.hex() if qb else None,
                                "spec_text": bytes(c["q"]).decode("latin-1") if "q" in c else None,
                                "src": 'local v = %s; local q = string.format("%%q", v); print(q); print(load("return " .. q)() == v, '
                                       'math.type(v), math.type(load("return " .. q)()))' % val})
        elif k % 997 == 0:
            rep.sample({"value": c.get("s", c.get("e", c.get("l"))), "real_text": qb.decode("latin-1"),
                        "spec_text": bytes(c["q"]).decode("latin-1") if "q" in c else None}, cap=10)
    log("[%s] %%q: %d values (%s), %d mismatching" % (rep.prop, len(cases), klass, nbad))
    cov["quote_mismatching"] = nbad
    if tonum:
        run_tonum(rep, drv, [c for c in cases if c["k"] == "int" or (c["k"] == "float" and c["finite"])])


def run_tonum(rep, drv, lattice):
    """tonumber(tostring(n)) == n: a law checked on the real code only; the spec supplies the lattice"""
    stmts = []
    for k, c in enumerate(lattice):
        v = lua_int(limbs_to_int(c["l"])) if c["k"] == "int" else "(%s)" % c["e"]
        stmts.append('do local v = %s local s = tostring(v) local r = tonumber(s) emit(%d, v, s, r, r == v) end' % (v, k))
    ev = lua_chunks(drv, [wrap_chunk(stmts)], len(stmts) + 10)[0]["events"]
    if len(ev) != len(lattice):
        raise Infra("tonumber: %d events for %d cases" % (len(ev), len(lattice)))
    nbad = 0
    for c, e in zip(lattice, ev):
        v, s, r, eq = e[1], e[2], e[3], e[4]
        rep.cov["traces_validated_against_impl"] += 1
        if c["k"] == "int" and v != {"i": str(limbs_to_int(c["l"]))}:
            raise Infra("integer literal rendering: %s" % show(v))
        if eq is True and r != v:
            # the manual leaves tostring's format open ("a non-specified human-readable format"): 2.0 -> "2" -> integer 2
            # satisfies the law as stated (==); counted for the record
            rep.cov["tonumber_equal_but_other_subtype_or_sign"] = rep.cov.get("tonumber_equal_but_other_subtype_or_sign", 0) + 1
        if eq is not True:
            nbad += 1
            expr = lua_int(limbs_to_int(c["l"])) if c["k"] == "int" else c["e"]
            rep.violation({"part": "tonum", "kind": c["k"], "expr": expr},
                          {"cmd": "lua-run", "detail": "tostring(%s) = %s, tonumber of that = %s" % (expr, show(s), show(r)),
                           "src": "local v = %s; print(tostring(v), tonumber(tostring(v)) == v, math.type(tonumber(tostring(v))))" % expr})
    rep.cov["tonumber_lattice"] = len(lattice)
    rep.cov["tonumber_mismatching"] = nbad
    log("[%s] tonumber(tostring(n)): %d numbers, %d mismatching" % (rep.prop, len(lattice), nbad))


# --------------------------------------------------------------------------
# printf

PRINTF_CFGS = {"quick": "PrintfQ.cfg", "thorough": "PrintfT.cfg"}


def run_printf(rep, drv, tier, workers):
    cov = rep.cov
    res = run_tlc("PrintfMC", PRINTF_CFGS[tier], timeout=1500, workers=workers)
    if res.violation:
        raise Infra("Printf.tla: %s" % res.violation)
    cases = res.emitted
    cov["states"] += res.distinct
    cov["transitions"] += res.generated
    stmts = []
    for k, c in enumerate(cases):
        args = c["args"] if "args" in c else [c["arg"]]
        stmts.append('emit(%d,pcall(string.format,%s%s))' % (k, lua_bytes(c["fmt"]), "".join("," + lua_val(a) for a in args)))
    per = 5000
    ev = []
    for o in lua_chunks(drv, [wrap_chunk(stmts[i:i + per]) for i in range(0, len(stmts), per)], per + 10):
        if "crash" in o or "hang" in o:
            raise Infra("the printf chunk did not complete: %s" % (o.get("crash", "hang"),))
        ev += o["events"]
    if len(ev) != len(cases):
        raise Infra("printf: %d events for %d cases" % (len(ev), len(cases)))
    klass = cov.setdefault("printf_classes", {})
    nbad = 0
    for c, e in zip(cases, ev):
        cov["traces_validated_against_impl"] += 1
        klass[c["cv"]] = klass.get(c["cv"], 0) + 1
        exp = bytes(c["out"])
        why = None
        if e[1] is not True:
            why = ("unexpected-error", "expected %r, got error %s" % (exp, show(e[2:])))
        elif got_bytes(e[2]) != exp:
            why = ("text", "expected %r got %r" % (exp, got_bytes(e[2])))
        if why:
            nbad += 1
            fl = c["fl"]
            a = c.get("arg")
            if a is None:
                vclass = "multi"
            elif a["t"] == "i":
                n = limbs_to_int(a["l"])
                vclass = "neg" if n < 0 else "zero" if n == 0 else "pos"
                if c["cv"] == "c":
                    vclass = "nul" if n == 0 else "high" if n >= 128 else "ascii"
            else:
                vclass = "highbytes" if any(x >= 128 for x in a["b"]) else "ascii"
            sig = {"part": "printf", "cv": c["cv"], "why": why[0], "minus": "-" in fl, "plus": "+" in fl, "space": " " in fl,
                   "alt": "#" in fl, "zero": "0" in fl, "width": c["w"] > 0, "prec": c["p"] >= 0, "prec0": c["p"] == 0, "signflag": "+" in fl or " " in fl,
                   "wp": c["w"] > 0 or c["p"] >= 0, "vclass": vclass}
            args = c["args"] if "args" in c else [c["arg"]]
            rep.violation(sig, {"cmd": "lua-run", "kind": "printf", "spec": c, "detail": why[1], "format": bytes(c["fmt"]).decode("latin-1"),
                                "args": [lua_val(x) for x in args],
                                "src": "print(string.format(%s%s))" % (lua_bytes(c["fmt"]), "".join("," + lua_val(x) for x in args))})
        elif cov["traces_validated_against_impl"] % 4999 == 0:
            rep.sample({"format": bytes(c["fmt"]).decode("latin-1"), "arg": lua_val(c["arg"]) if "arg" in c else None,
                        "text": exp.decode("latin-1")}, cap=14)
    cov["printf_mismatching"] = nbad
    log("[%s] printf %s: %d distinct, %d directives compared (%s), %d mismatching (%.0fs)" % (
        rep.prop, PRINTF_CFGS[tier], res.distinct, len(cases), klass, nbad, res.wall))


# --------------------------------------------------------------------------

def replay(prop, path):
    """./check C17 --replay <file>: run the recorded case again on the current tree and compare with the recorded expectation
    of the spec (exit 1 when the discrepancy is still there, 0 when it is gone)"""
    with open(path) as f:
        r = json.load(f)["replay"]
    drv = build_driver()
    kind = r.get("kind")
    found = []
    if kind == "pack":
        c = r["spec"]
        o = lua_chunks(drv, [wrap_chunk(pack_render(0, c))], 100)[0]
        if "crash" in o or "hang" in o:
            found.append("crash/hang: %s" % str(o.get("crash", "hang"))[:300])
        else:
            evs = {e[1]["s"]: e[2:] for e in o["events"]}
            pack_compare(c, evs, lambda extra, detail: found.append("%s %s: %s" % (extra["fn"], extra["why"], detail)))
    elif kind == "printf":
        c = r["spec"]
        args = c["args"] if "args" in c else [c["arg"]]
        src = 'emit(pcall(string.format,%s%s))' % (lua_bytes(c["fmt"]), "".join("," + lua_val(a) for a in args))
        e = lua_chunks(drv, [src], 10)[0]["events"][0]
        if e[0] is not True or got_bytes(e[1]) != bytes(c["out"]):
            found.append("expected %r got %s" % (bytes(c["out"]), show(e)))
    elif kind == "quote":
        src = ('local v = %s local q = string.format("%%q", v) local f = load("return " .. q) emit(q, v, f and pcall(f))' % r["value"])
        e = lua_chunks(drv, [src], 10)[0]["events"][0]
        log("observed text: %r" % got_bytes(e[0]))
        if len(e) < 4 or e[2] is not True or e[3] != e[1] or (r.get("spec_text") and "lexer" in r["detail"]):
            found.append(r["detail"])
    else:
        raise Infra("unknown replay kind in %s" % path)
    for x in found:
        print("STILL-FAILING: " + x)
    return 1 if found else 0


def run(prop, tier, parts=None, workers=None):
    rep = Report(prop, tier, "model_checking")
    rep.cov.update(states=0, transitions=0, traces_validated_against_impl=0, exhaustive=True)
    drv = build_driver()
    parts = parts or ["pack", "quote", "printf", "tonum"]
    if "pack" in parts:
        run_pack(rep, drv, tier, workers)
    if "quote" in parts:
        run_quote(rep, drv, tier, workers, tonum="tonum" in parts)
    if "printf" in parts:
        run_printf(rep, drv, tier, workers)
    rep.assumptions += [
        "native sizes (h i l T), native alignment ('!') and native endianness are implementation-defined: measured with "
        "string.packsize and passed to the spec as constants",
        "error messages are not compared, only error versus no error",
        "the text produced by %q is not compared (any text that denotes the value is allowed)",
        "tonumber(tostring(n)) == n is a law checked on the real code with Lua's == (the manual leaves tostring's number format "
        "open); the spec only supplies the number lattice",
        "float conversions (%e %f %g %a) and flag/conversion combinations that ISO C leaves undefined are not generated",
    ]
    fam = {}
    for sig, _ in rep.violations:
        k = json.dumps(sig, sort_keys=True)
        fam[k] = fam.get(k, 0) + 1
    for k, n in sorted(fam.items(), key=lambda kv: -kv[1])[:int(os.environ.get("VERIF_C17_FAMILIES", "12"))]:
        log("  unlisted mismatch family x%d: %s" % (n, k))
    return rep.finish()

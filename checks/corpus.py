"""A corpus of Lua programs with spec-given expectations, drawn from the TLA+ program generators
(CloseStack / ErrorFlow / CoSem / TableAbs).  Used by the relational properties C13 (dump/load) and C14 (build options):
every variant of the implementation must conform to the same specification behaviour."""
import json, os, re, sys, random
sys.path.insert(0, os.path.join(os.path.dirname(os.path.abspath(__file__)), "..", "lib"))
from vlib import *
import closestack, cosem, table


def _ms(cfg):
    return int(re.search(r"MaxSteps\s*=\s*(\d+)", open(os.path.join(SPEC, cfg)).read()).group(1))


def build(tier, rng, n_each=None):
    """returns list of dicts: {family, src, judge(o) -> None | why-dict}"""
    n_each = n_each or (150 if tier == "quick" else 1500)
    items = []
    # scope / close / error-flow paths
    for cfg, battery, fam in (("CloseStackSim.cfg", False, "close"), ("ErrorFlowSim.cfg", True, "error")):
        ms = _ms(cfg)
        lines = []
        run_tlc("CloseStack", cfg, timeout=900, on_line=lines.append, simulate="num=%d" % (n_each * 2), depth=ms, workers=1)
        lines = [l for l in lines if len(l["h"]) == ms or (l["fin"] != "run" and len(l["h"]) >= 4)]
        for l in rng.sample(lines, min(n_each, len(lines))):
            src, lineof = closestack.render(l, ms, battery)
            exp = [["tables"] + ["T%d" % j for j in range(1, ms + 1)]] + l["ev"]
            items.append({"family": fam, "src": src,
                          "judge": (lambda o, exp=exp, fin=l["fin"], tokf=closestack.make_tokf(lineof, l): compare_program(o, exp, fin, tokf))})
    # coroutine scripts
    nco, wrapset, ms = cosem.cfg_const("CoSemSim.cfg")
    lines = []
    run_tlc("CoSem", "CoSemSim.cfg", timeout=900, on_line=lines.append, simulate="num=%d" % (n_each * 2), depth=ms, workers=1)
    lines = [l for l in lines if len(l["h"]) == ms]
    for l in rng.sample(lines, min(n_each, len(lines))):
        exp = cosem.expected_events(l, nco, wrapset, ms)
        items.append({"family": "coroutine", "src": cosem.render(l, nco, wrapset, ms),
                      "judge": (lambda o, exp=exp: compare_program(o, exp, "done"))})
    # table histories
    keys, alias = table.FAM["All"]
    spell = keys + sorted(alias)
    ms = _ms("TableSim.cfg")
    lines = []
    run_tlc("TableMC", "TableSim.cfg", timeout=900, on_line=lines.append, simulate="num=%d" % max(20, n_each // 3), depth=ms, workers=1)
    lines = [l for l in lines if len(l["h"]) == ms]
    for l in lines[:n_each]:
        items.append({"family": "table", "src": table.render(l, rng, spell),
                      "judge": (lambda o, l=l: table.check_line(l, o, spell, lambda s: alias.get(s, s)))})
    return items


# programs that stress the register / continuation pools; the oracle for these is relational
# (every build variant must produce what the reference variant produces) plus the literal expectations below
STRESS = [
    ("deep-recursion", "local function f(n) if n == 0 then return 0 end return 1 + f(n - 1) end emit(f(5000))", [[{"i": "5000"}]]),
    ("tail-recursion", "local function f(n, a) if n == 0 then return a end return f(n - 1, a + 1) end emit(f(200000, 0))", [[{"i": "200000"}]]),
    ("error-unwind", "local function f(n) if n == 0 then error({}) end local x = f(n - 1) return x end for i = 1, 50 do local ok = pcall(f, 200) emit(ok) end "
                     "local function g(n) if n == 0 then return 1 end return n * g(n - 1) end emit(g(10))",
     [[False]] * 50 + [[{"i": "3628800"}]]),
    ("abandoned-coroutines", "local function gen(n) return coroutine.wrap(function() for i = 1, n do local t = {i, i + 1} coroutine.yield(t[1] + t[2]) end end) end "
                             "local s = 0 for k = 1, 200 do local g = gen(10) s = s + g() + g() end emit(s)", [[{"i": "1600"}]]),
    ("closures-outlive-frame", "local fs = {} for i = 1, 100 do local j = i * 2 fs[i] = function() j = j + 1 return j end end local s = 0 "
                               "for r = 1, 3 do for i = 1, 100 do s = s + fs[i]() end end emit(s)", [[{"i": "30900"}]]),
    ("reentrant-go", "local t = {} for i = 1, 200 do t[i] = (i * 7919) % 200 end table.sort(t, function(a, b) local ok, r = pcall(function() return a < b end) return r end) "
                     "local ok = true for i = 2, 200 do ok = ok and t[i - 1] <= t[i] end emit(ok, (string.gsub('hello world', '%w+', function(w) return w:upper() end)))",
     [[True, {"s": "HELLO WORLD"}]]),
    ("vararg-pools", "local function f(...) local a, b = ... return select('#', ...), a, b end local s = 0 for i = 1, 2000 do local n, a, b = f(i, i + 1, i + 2) s = s + n + a + b end emit(s)",
     [[{"i": "4010000"}]]),
    ("error-in-handler-chain", "local function lvl(n) if n == 0 then error('deep', 0) end local ok, e = pcall(lvl, n - 1) error(e .. n, 0) end local ok, e = pcall(lvl, 30) emit(ok, #e)",
     [[False, {"i": "55"}]]),
    ("tostring-metamethod-reentry", "local mt = {__tostring = function(t) return 'obj' .. #t end, __concat = function(a, b) return tostring(a) .. '|' .. tostring(b) end} "
                                    "local a, b = setmetatable({1}, mt), setmetatable({1, 2}, mt) local s = '' for i = 1, 100 do s = a .. b end emit(s)", [[{"s": "obj1|obj2"}]]),
]

"""A corpus of Lua programs with spec-given expectations, drawn from the TLA+ program generators
(CloseStack / ErrorFlow / CoSem / TableAbs).  Used by the relational properties C13 (dump/load) and C14 (build options):
every variant of the implementation must conform to the same specification behaviour."""
import json, os, re, sys, random
sys.path.insert(0, os.path.join(os.path.dirname(os.path.abspath(__file__)), "..", "lib"))
from vlib import *
import closestack, cosem, table


def _ms(cfg):
    return int(re.search(r"MaxSteps\s*=\s*(\d+)", open(os.path.join(SPEC, cfg)).read()).group(1))


def build(tier, rng, n_each=None):
    """returns list of dicts: {family, src, judge(o) -> None | why-dict}"""
    n_each = n_each or (150 if tier == "quick" else 1500)
    items = []
    # scope / close / error-flow paths
    for cfg, battery, fam in (("CloseStackSim.cfg", False, "close"), ("ErrorFlowSim.cfg", True, "error")):
        ms = _ms(cfg)
        lines = []
        run_tlc("CloseStack", cfg, timeout=900, on_line=lines.append, simulate="num=%d" % (n_each * 2), depth=ms, workers=1)
        lines = [l for l in lines if len(l["h"]) == ms or (l["fin"] != "run" and len(l["h"]) >= 4)]
        for l in rng.sample(lines, min(n_each, len(lines))):
            src, lineof = closestack.render(l, ms, battery)
            exp = [["tables"] + ["T%d" % j for j in range(1, ms + 1)]] + l["ev"]
            items.append({"family": fam, "src": src,
                          "judge": (lambda o, exp=exp, fin=l["fin"], tokf=closestack.make_tokf(lineof, l): compare_program(o, exp, fin, tokf))})
    # coroutine scripts
    nco, wrapset, ms = cosem.cfg_const("CoSemSim.cfg")
    lines = []
    run_tlc("CoSem", "CoSemSim.cfg", timeout=900, on_line=lines.append, simulate="num=%d" % (n_each * 2), depth=ms, workers=1)
    lines = [l for l in lines if len(l["h"]) == ms]
    for l in rng.sample(lines, min(n_each, len(lines))):
        exp = cosem.expected_events(l, nco, wrapset, ms)
        items.append({"family": "coroutine", "src": cosem.render(l, nco, wrapset, ms),
                      "judge": (lambda o, exp=exp: compare_program(o, exp, "done"))})
    # table histories
    keys, alias = table.FAM["All"]
    spell = keys + sorted(alias)
    ms = _ms("TableSim.cfg")
    lines = []
    run_tlc("TableMC", "TableSim.cfg", timeout=900, on_line=lines.append, simulate="num=%d" % max(20, n_each // 3), depth=ms, workers=1)
    lines = [l for l in lines if len(l["h"]) == ms]
    for l in lines[:n_each]:
        items.append({"family": "table", "src": table.render(l, rng, spell),
                      "judge": (lambda o, l=l: table.check_line(l, o, spell, lambda s: alias.get(s, s)))})
    return items


# programs that stress the register / continuation pools; the oracle for these is relational
# (every build variant must produce what the reference variant produces) plus the literal expectations below
STRESS = [
    ("deep-recursion", "local function f(n) if n == 0 then return 0 end return 1 + f(n - 1) end emit(f(5000))", [[{"i": "5000"}]]),
    ("tail-recursion", "local function f(n, a) if n == 0 then return a end return f(n - 1, a + 1) end emit(f(200000, 0))", [[{"i": "200000"}]]),
    ("error-unwind", "local function f(n) if n == 0 then error({}) end local x = f(n - 1) return x end for i = 1, 50 do local ok = pcall(f, 200) emit(ok) end "
                     "local function g(n) if n == 0 then return 1 end return n * g(n - 1) end emit(g(10))",
     [[False]] * 50 + [[{"i": "3628800"}]]),
    ("abandoned-coroutines", "local function gen(n) return coroutine.wrap(function() for i = 1, n do local t = {i, i + 1} coroutine.yield(t[1] + t[2]) end end) end "
                             "local s = 0 for k = 1, 200 do local g = gen(10) s = s + g() + g() end emit(s)", [[{"i": "1600"}]]),
    ("closures-outlive-frame", "local fs = {} for i = 1, 100 do local j = i * 2 fs[i] = function() j = j + 1 return j end end local s = 0 "
                               "for r = 1, 3 do for i = 1, 100 do s = s + fs[i]() end end emit(s)", [[{"i": "30900"}]]),
    ("reentrant-go", "local t = {} for i = 1, 200 do t[i] = (i * 7919) % 200 end table.sort(t, function(a, b) local ok, r = pcall(function() return a < b end) return r end) "
                     "local ok = true for i = 2, 200 do ok = ok and t[i - 1] <= t[i] end emit(ok, (string.gsub('hello world', '%w+', function(w) return w:upper() end)))",
     [[True, {"s": "HELLO WORLD"}]]),
    ("vararg-pools", "local function f(...) local a, b = ... return select('#', ...), a, b end local s = 0 for i = 1, 2000 do local n, a, b = f(i, i + 1, i + 2) s = s + n + a + b end emit(s)",
     [[{"i": "4010000"}]]),
    ("error-in-handler-chain", "local function lvl(n) if n == 0 then error('deep', 0) end local ok, e = pcall(lvl, n - 1) error(e .. n, 0) end local ok, e = pcall(lvl, 30) emit(ok, #e)",
     [[False, {"i": "55"}]]),
    # a Go function called with a trailing optional argument omitted, right after a call of the same arity that gave it:
    # pooled argument sets must not leak the earlier value (values below are what the manual gives)
    ("optional-args-after-full-args", 'do local ran = 0 pcall(function() runtime.callcontext({}, function() ran = ran + 1 end) end) pcall(function() runtime.callcontext({}) end) emit(ran <= 1) end emit(string.rep("x", 3, ","), string.rep("x", 3)) emit(string.find("a.b", ".", 2, true)) emit(string.find("a.b", "%.", 1)) emit(string.find("a.b", "b")) emit(table.concat({1, 2, 3}, ",", 2, 3), table.concat({1, 2, 3}, ","), table.concat({1, 2, 3})) emit(tonumber("10", 16), tonumber("10")) emit(string.sub("hello", 2, 3), string.sub("hello", 2)) emit(select("#", table.unpack({1, 2, 3}, 2, 3)), select("#", table.unpack({1, 2, 3}, 2)), select("#", table.unpack({1, 2, 3}))) emit(string.byte("abc", 1, 2)) emit(string.byte("abc", 2)) emit(string.byte("abc")) emit((string.gsub("aaa", "a", "b", 1)), (string.gsub("aaa", "a", "b"))) emit(math.max(1, 5, 3), math.max(2), math.min(4, 2), math.min(7)) emit(string.format("%d-%d", 1, 2), string.format("%d", 7)) emit(rawequal(1, 1), rawlen({1, 2}), select("#", next({}, nil)), select("#", next({}))) emit(tostring(1, 2), tostring(3)) emit(utf8.char(65, 66), utf8.char(67), utf8.len("ab", 1, 2), utf8.len("ab")) emit(select(-1, 1, 2, 3), select(2, "a", "b")) emit(pcall(error, "e", 0)) emit(pcall(error, "e", 0)) emit((pcall(error))) emit(coroutine.wrap(function(a, b) return a, b end)(1, 2)) emit(coroutine.wrap(function(a, b) return a, b end)(1)) emit(string.pack("i1i1", 1, 2) == "\\1\\2", string.pack("i1", 3) == "\\3", string.unpack("i1", "\\5", 1), (string.unpack("i1", "\\6"))) emit(load("return 1", "n", "t", {}) ~= nil, load("return 2", "n") ~= nil, load("return 3") ~= nil) emit(setmetatable({}, {__index = function(t, k, extra) return extra == nil end}).x)',
     [[True], [{"s": "x,x,x"}, {"s": "xxx"}], [{"i": "2"}, {"i": "2"}], [{"i": "2"}, {"i": "2"}], [{"i": "3"}, {"i": "3"}], [{"s": "2,3"}, {"s": "1,2,3"}, {"s": "123"}], [{"i": "16"}, {"i": "10"}], [{"s": "el"}, {"s": "ello"}], [{"i": "2"}, {"i": "2"}, {"i": "3"}], [{"i": "97"}, {"i": "98"}], [{"i": "98"}], [{"i": "97"}], [{"s": "baa"}, {"s": "bbb"}], [{"i": "5"}, {"i": "2"}, {"i": "2"}, {"i": "7"}], [{"s": "1-2"}, {"s": "7"}], [True, {"i": "2"}, {"i": "1"}, {"i": "1"}], [{"s": "1"}, {"s": "3"}], [{"s": "AB"}, {"s": "C"}, {"i": "2"}, {"i": "2"}], [{"i": "3"}, {"s": "b"}], [False, {"s": "e"}], [False, {"s": "e"}], [False], [{"i": "1"}, {"i": "2"}], [{"i": "1"}, None], [True, True, {"i": "5"}, {"i": "6"}], [True, True, True], [True]]),
    ("tostring-metamethod-reentry", "local mt = {__tostring = function(t) return 'obj' .. #t end, __concat = function(a, b) return tostring(a) .. '|' .. tostring(b) end} "
                                    "local a, b = setmetatable({1}, mt), setmetatable({1, 2}, mt) local s = '' for i = 1, 100 do s = a .. b end emit(s)", [[{"s": "obj1|obj2"}]]),
]


# ----------------------------------------------------------------------------------------------------------------
# round 2, C13: the size family of spec/DumpSize.tla.  The spec gives, per (shape, n) and per variant of the dump / load
# round trip, the events the program must produce; this module only renders the text described next to each case of
# Events(s, n, kd) in the spec and compares the observed events with the emitted expectation for equality.

def ds_shape_src(s, n, mid, probes):
    seq = lambda f, sep=", ": sep.join(f(i) for i in range(1, n + 1))
    names = lambda p: seq(lambda i: "%s%d" % (p, i))
    if s == "siblings":
        return ("local t = {}\n" + "".join("t[%d] = function(x) return x + %d end\n" % (i, i) for i in range(1, n + 1)) +
                "local s = 0 for i = 1, #t do s = (s + t[i](0)) %% 9973 end\nemit(\"siblings\", #t, t[1](10), t[%d](10), s)" % n)
    if s == "nested":
        return 'emit("nested", ' + "(function() return 1 + " * n + "0" + " end)()" * n + ")"
    if s == "module":
        return ("local M = {}\n" + "".join("function M.f%d(a) return function(b) return function(c) return a + b + c + %d end end end\n" % (i, i) for i in range(1, n + 1)) +
                'emit("module", M.f1(1)(2)(3), M.f%d(1)(2)(3))' % n)
    if s == "upthread":
        return ("local v = 7\nlocal r = " + "(function() return " * (n - 1) + "(function() v = v + %d return v end)()" % n + " end)()" * (n - 1) + '\nemit("upthread", r, v)')
    if s == "deep-consts":
        return ('emit("deep-consts", (' + "".join("(function() return %d + " % (1000 + j) for j in range(1, n + 1)) + "0" + " end)()" * n + ") % 9973)")
    if s == "int-consts":
        return ("local t = {%s}\nlocal s = 0 for i = 1, #t do s = (s + t[i]) %% 9973 end\nemit(\"int-consts\", #t, t[1], t[%d], s)" % (seq(lambda i: str(1000000 + i)), n))
    if s == "float-consts":
        return ("local t = {%s}\nlocal s = 0 for i = 1, #t do s = (s + math.tointeger(t[i] * 2)) %% 9973 end\n"
                "emit(\"float-consts\", #t, math.type(t[%d]), math.tointeger(t[%d] * 2), s)" % (seq(lambda i: "%d.5" % i), n, n))
    if s == "str-consts":
        return ("local t = {%s}\nlocal s = 0 for i = 1, #t do s = (s + #t[i]) %% 9973 end\n"
                "emit(\"str-consts\", #t, t[1]:sub(1, 1), tonumber(t[1]:sub(2)), tonumber(t[%d]:sub(2)), s)" % (seq(lambda i: '"k%05d"' % i), n))
    if s == "bin-consts":
        return ("local t = {%s}\nemit(\"bin-consts\", #t, #t[%d], t[%d]:byte(1), t[%d]:byte(2), t[%d]:byte(3), tonumber(t[%d]:sub(5)), tonumber(t[1]:sub(5)))"
                % (seq(lambda i: '"\\0\\255\\200k%05d"' % i), n, n, n, n, n))
    if s == "long-string":
        return ('local s = "' + "".join("\\%03d" % ((i * 7 + 3) % 256) for i in range(1, n + 1)) + '"\nlocal c = 0 for i = 1, #s do c = (c + s:byte(i)) %% 9973 end\n'
                'emit("long-string", #s, s:byte(1), s:byte(%d), s:byte(%d), c)' % (mid, n))
    if s == "long-bracket":
        return "local s = [==[" + "".join(chr(97 + (i - 1) % 26) for i in range(1, n + 1)) + ']==]\nemit("long-bracket", #s, s:byte(1), s:byte(%d))' % n
    if s == "mixed":
        return ("local t = {}\n" + "".join('t[%d] = function() return "shared", 424242, "own%05d", %d, %d.5 end\n' % (i, i, 1000000 + i, i) for i in range(1, n + 1)) +
                "".join('do local a, b, c, d, e = t[%d]() emit("mixed", %d, a, b, tonumber(c:sub(4)), d, math.tointeger(e * 2)) end\n' % (p, p) for p in probes))
    if s == "upvalues":
        return ("local %s = %s\nlocal function f() a1 = a1 + 1 return a1 + a%d + 0 * (%s) end\nemit(\"upvalues\", f(), f(), a1)"
                % (names("a"), seq(str), n, seq(lambda i: "a%d" % i, " + ")))
    if s == "upvalue-layout":
        return ("local %s = %s\nlocal function g() return u1, u%d, u%d, 0 * (%s) end\n"
                "local function count(f) local c = 0 while debug.getupvalue(f, c + 1) do c = c + 1 end return c end\n"
                "local h = load(string.dump(g), \"=ds\", \"b\")\nlocal same = true\n"
                "for i = 1, count(g) do same = same and (debug.getupvalue(g, i)) == (debug.getupvalue(h, i)) end\n"
                "for i = 1, count(g) do debug.upvaluejoin(h, i, g, i) end\n"
                "emit(\"upvalue-layout\", count(h) == count(g), count(g), same, h())"
                % (names("u"), seq(str), mid, n, seq(lambda i: "u%d" % i, " + ")))
    if s == "locals":
        return "local %s = %s\nemit(\"locals\", a1 + a%d, a%d)" % (names("a"), seq(str), n, mid)
    if s == "instructions":
        return "local x = 0\n" + "x = x + 1\n" * n + 'emit("instructions", x)'
    if s == "jump-forward":
        return "local x = 0\nif x == 1 then\n" + "x = x + 1\n" * n + 'end\nemit("jump-forward", x)'
    if s == "jump-back":
        return "local x, k = 0, 0\nwhile k < 3 do\nk = k + 1\n" + "x = x + 1\n" * n + 'end\nemit("jump-back", k, x)'
    if s == "vararg":
        return ("local function f(...) local a, b = ... return select('#', ...), a, b, (select(%d, ...)) end\nemit(\"vararg\", f(%s))\n"
                "emit(\"vararg-main\", select('#', ...), ...)" % (n, seq(str)))
    if s == "params":
        return "local function f(%s) return p1, p%d end\nemit(\"params\", f(%s))" % (names("p"), n, seq(str))
    if s == "returns":
        return "local function f() return %s end\nemit(\"returns\", select('#', f()), (select(%d, f())))" % (seq(str), n)
    if s == "lines":
        return ("local function f(x)\n" + "".join('if x == %d then error("e") end\n' % i for i in range(1, n + 1)) + "return 0 end\n" +
                "".join('do local ok, m = pcall(f, %d) local src, ln = tostring(m):match("^(.-):(%%d+):") emit("lines", %d, ok, src, tonumber(ln)) end\n' % (p, p) for p in probes))
    if s == "edge-consts":
        return ('emit("edge-consts", 9223372036854775807 == math.maxinteger, -9223372036854775807 - 1 == math.mininteger, 1e308 * 10 == math.huge, 5e-324 > 0, '
                '5e-324 / 2 == 0, 0.1 + 0.2 == 0.30000000000000004, 1 / -0.0 == -math.huge, 0x7fffffffffffffff + 1 == math.mininteger, #"\\0", #"\\u{10FFFF}", ("\\xff"):byte(), #"")')
    raise Infra("unknown DumpSize shape " + s)


def _ds_longstr(s):
    lvl = 0
    while ("]" + "=" * lvl + "]") in s:
        lvl += 1
    return "[" + "=" * lvl + "[\n" + s + "]" + "=" * lvl + "]"


DS_WRAPPER = r"""local src = %s
local function run(tag, fn)
  emit("variant", tag)
  if not fn then emit("not-a-function") return end
  local ok, e = pcall(fn, 11, 22, 33)
  if not ok then emit("runtime-error", tostring(e)) end
end
local function reload(f, strip)
  local ok, d = pcall(string.dump, f, strip)
  if not ok then emit("dump-failed", tostring(d)) return nil end
  local g, e = load(d, "=ds", "b")
  if not g then emit("reload-failed", tostring(e)) end
  return g, d
end
local f, e = load(src, "=ds")
if not f then emit("not-compiled", tostring(e)) return end
local want = {%s}
for _, v in ipairs(want) do
  if v == "direct" then
    run("direct", f)
  elseif v == "dump" then
    emit("variant", "dump")
    local g = reload(f)
    if g then run("dump.run", g) end
  elseif v == "strip" then
    emit("variant", "strip")
    local g = reload(f, true)
    if g then run("strip.run", g) end
  elseif v == "redump" then
    emit("variant", "redump")
    local g, d = reload(f)
    if g then
      local d1, d2 = string.dump(f), string.dump(g)
      emit("stable", d1 == d, d2 == d)
      local g2 = load(d2, "=ds", "b")
      run("redump.run", g2)
    end
  elseif v == "inner" then
    emit("variant", "inner")
    local mk = load("return function(...) " .. src .. "\nend", "=ds")
    if not mk then emit("inner-not-compiled") else
      local g = reload(mk())
      if g then run("inner.run", g) end
    end
  end
end
"""


def ds_wrapper(src, variants):
    return DS_WRAPPER % (_ds_longstr(src), ", ".join('"%s"' % v for v in variants))


def ds_tok(x):
    if x == "ANY":
        return ("any",)
    return tok(x)


def ds_split(events):
    """observed events -> {variant: [events]}; the markers are ["variant", name] and ["variant", name + ".run"]"""
    out, cur = {}, None
    for e in events:
        if len(e) == 2 and e[0] == {"s": "variant"} and isinstance(e[1], dict) and "s" in e[1]:
            name = e[1]["s"]
            if name.endswith(".run"):
                continue
            cur = out.setdefault(name, [])
        elif cur is not None:
            cur.append(e)
    return out


def ds_match(exp, got):
    if len(exp) != len(got):
        return False
    for ee, ge in zip(exp, got):
        if len(ee) != len(ge):
            return False
        for x, g in zip(ee, ge):
            t = ds_tok(x)
            if t != ("any",) and t != g:
                return False
    return True


def build_dumpsize(tier):
    """-> list of {shape, n, src, variants: [{v, ev}]} from DumpSize.tla"""
    lines = []
    res = run_tlc("DumpSizeMC", "DumpSizeQ.cfg" if tier == "quick" else "DumpSizeT.cfg", timeout=600, on_line=lines.append, workers=1)
    items = []
    for l in sorted(lines, key=lambda l: (l["shape"], l["n"])):
        src = ds_shape_src(l["shape"], l["n"], l["mid"], l["probes"])
        items.append({"shape": l["shape"], "n": l["n"], "variants": l["variants"], "src": ds_wrapper(src, [v["v"] for v in l["variants"]]), "shape_src_head": src[:400]})
    return items, res


# ----------------------------------------------------------------------------------------------------------------
# round 2, C14 (also run by C13): the chain programs of spec/DeadCo.tla: errors crossing Go functions inside coroutines,
# inspection of the dead coroutines, further calls to provoke pool reuse, inspection again.  The spec gives the events.

DC_PRELUDE = r"""local E = {}
emit("E", E)
local cos, tbs = {}, {}
local FOREIGN = {%(foreign)s}
local function foreign(j, tb)
  for _, name in ipairs(FOREIGN[j]) do
    if tb:find("%%f[%%w_]" .. name .. "%%f[^%%w_]") then return true end
  end
  return false
end
local function inspect(j, p, last)
  local co = cos[j]
  emit("status", j, p, coroutine.status(co))
  local tb = debug.traceback(co)
  emit("tb", j, p, tb)
  emit("tbmsg", j, p, (debug.traceback(co, "MSG"):sub(1, 3)))
  for lvl = 0, 2 do
    local i = debug.getinfo(co, lvl)
    emit("info", j, p, lvl, i == nil or (type(i) == "table" and type(i.currentline) == "number" and type(i.source) == "string"),
         i and i.name, i and i.currentline, i and i.source)
  end
  emit("foreign", j, p, type(tb) ~= "string" or foreign(j, tb))
  if tbs[j] == nil then tbs[j] = tb else emit("same", j, p, tb == tbs[j]) end
  emit("resume-dead", j, p, coroutine.resume(co))
  if last then
    local ok, v = coroutine.close(co)
    emit("close", j, ok, v)
    emit("closed-status", j, coroutine.status(co))
  end
end
local function under(n, f, ...)
  if n == 0 then return f(...) end
  local ok, err = pcall(under, n - 1, f, ...)
  if not ok then error(err, 0) end
end
local churn = {}
function churn.none() return 0 end
function churn.pcalls(k)
  local function d(n) if n == 0 then return 0 end local ok, v = pcall(d, n - 1) return v + 1 end
  return d(k)
end
function churn.gocalls(k)
  local n = 0
  for i = 1, k do
    local t = {5, 3, 4, 1, 2}
    table.sort(t, function(a, b) return a < b end)
    local s = string.gsub("ab", "%%w", function(c) return c:upper() end)
    local u = tostring(setmetatable({}, {__tostring = function() return "obj" end}))
    if t[1] == 1 and t[5] == 5 and s == "AB" and u == "obj" then n = n + 1 end
  end
  return n
end
function churn.coros(k)
  local n = 0
  for i = 1, k do
    local co = coroutine.create(function() table.sort({3, 2, 1}, function(a, b) error("churn", 0) end) end)
    local ok, e = coroutine.resume(co)
    local w = coroutine.wrap(function() for j = 1, 3 do coroutine.yield(j) end end)
    if not ok and e == "churn" and coroutine.status(co) == "dead" and w() + w() == 3 then n = n + 1 end
  end
  return n
end
"""

DC_RAISE = {"tbl": "error(E)", "str0": 'error("boom", 0)', "str1": 'error("boom")', "nil": "error(nil)", "rt": "local z z.x = 1", "goerr": "string.rep()",
            "none": ""}

DC_GO = {
    "sort": "local d = false table.sort({2, 1}, function(a, b) if not d then d = true NEXT() end return a < b end)",
    "sortlt": "local d = false local mt = {__lt = function(a, b) if not d then d = true NEXT() end return false end} table.sort({setmetatable({}, mt), setmetatable({}, mt)})",
    "gsub": 'string.gsub("a", "a", function() NEXT() return "b" end)',
    "gsubtbl": 'string.gsub("a", "a", setmetatable({}, {__index = function() NEXT() return "b" end}))',
    "tostring": 'tostring(setmetatable({}, {__tostring = function() NEXT() return "s" end}))',
    "format": 'string.format("%s", setmetatable({}, {__tostring = function() NEXT() return "s" end}))',
    "unpack": "table.unpack(setmetatable({}, {__index = function() NEXT() return 1 end}), 1, 1)",
    "unpacklen": "table.unpack(setmetatable({}, {__len = function() NEXT() return 0 end}))",
    "concat": 'table.concat(setmetatable({}, {__index = function() NEXT() return "x" end}), "", 1, 1)',
    "insert": "table.insert(setmetatable({}, {__newindex = function() NEXT() end}), 1)",
    "ipairs": "for i, v in ipairs(setmetatable({}, {__index = function(t, k) if k == 1 then NEXT() return 1 end return nil end})) do end",
    "pairs": "for k, v in pairs(setmetatable({}, {__pairs = function(t) NEXT() return next, {}, nil end})) do end",
    "lua": "NEXT()",
    "load": 'local fn = load(function() NEXT() return nil end) if not fn then error("load-failed", 0) end',
    "wrap": "local w = coroutine.wrap(function() cos[I] = coroutine.running() NEXT() end) w()",
}


def dc_render(l):
    chain, k = l["chain"], len(l["chain"])
    own = {c["co"]: c for c in l["cos"]}
    helpers = ["inspect", "under", "foreign", "pcalls", "gocalls", "coros"]
    foreign = ", ".join("[%d] = {%s}" % (c["co"], ", ".join('"%s"' % nm for nm in ["hop%d" % j for j in range(1, k + 2) if not c["lo"] <= j <= c["hi"]] + helpers))
                        for c in l["cos"])
    out = [DC_PRELUDE % {"foreign": foreign}]
    out.append('local function hop%d() emit("in", %d) %s emit("ret", %d) end' % (k + 1, k + 1, DC_RAISE[l["err"]], k + 1))
    for i in range(k, 0, -1):
        h = chain[i - 1]
        r, nxt = h["r"], "hop%d" % (i + 1)
        re = "error(e, 0)" if h["f"] == "rethrow" else ""
        if r == "tail":
            body = "return %s()" % nxt
            out.append('local function hop%d() emit("in", %d) %s end' % (i, i, body))
            continue
        if r in DC_GO:
            body = DC_GO[r].replace("NEXT", nxt).replace("I", str(i)) if r == "wrap" else DC_GO[r].replace("NEXT", nxt)
        elif r == "pcall":
            body = 'local ok, e = pcall(%s) if not ok then emit("caught", %d, e) %s end' % (nxt, i, re)
        elif r == "pcallmeta":
            body = 'local ok, e = pcall(setmetatable({}, {__call = function() %s() end})) if not ok then emit("caught", %d, e) %s end' % (nxt, i, re)
        elif r == "xpcall":
            body = 'local ok, e = xpcall(%s, function(m) emit("handler", %d, m) return m end) if not ok then emit("caught", %d, e) %s end' % (nxt, i, i, re)
        elif r in ("resume", "resumey"):
            if r == "resume":
                mk = "local co = coroutine.create(%s) cos[%d] = co" % (nxt, i)
            else:
                mk = ('local co = coroutine.create(function() coroutine.yield() %s() end) cos[%d] = co coroutine.resume(co) emit("yielded", %d, coroutine.status(co))'
                      % (nxt, i, i))
            body = '%s local ok, e = coroutine.resume(co) emit("resumed", %d, ok, e) inspect(%d, 1, %s) if not ok then %s end' % (mk, i, i, "true" if len(l["phases"]) == 1 else "false", re)
        else:
            raise Infra("unknown DeadCo route " + r)
        out.append('local function hop%d() emit("in", %d) %s emit("ret", %d) end' % (i, i, body, i))
    out.append('do local ok, e = pcall(hop1) emit("top", ok, e) end')
    nph = len(l["phases"])
    for p in range(2, nph + 1):
        ph = l["phases"][p - 1]
        out.append('emit("churn", %d, churn.%s(%d))' % (p, ph["churn"], ph["k"]))
        for c in l["cos"]:
            out.append("under(%d, inspect, %d, %d, %s)" % (ph["under"], c["co"], p, "true" if p == nph else "false"))
    return "\n".join(out)


def dc_judge(o, exp):
    """compare_program with the extra token "ANY" (a value the specification leaves open)"""
    if o.get("timeout"):
        return {"kind": "hang", "detail": "did not finish within the watchdog"}
    if o.get("crash") or o.get("panic"):
        n = len(o.get("events") or [])
        return {"kind": "crash", "detail": (o.get("panic") or o.get("stderr", ""))[:400], "tag": "process-died" if o.get("crash") else exp[n][0] if n < len(exp) else "end"}
    got = o["events"]
    for j, e in enumerate(exp):
        if j >= len(got):
            return {"kind": "events", "detail": "missing event %d: expected %s%s" % (j, json.dumps(e), "; the program ended with " + o.get("errstr", "")[:200] if not o.get("ok") else ""), "tag": e[0]}
        g = got[j]
        if len(g) != len(e) or not all(x == "ANY" or val_match(x, y) for x, y in zip(e, g)):
            return {"kind": "events", "detail": "event %d: expected %s got %s" % (j, json.dumps(e), json.dumps(g)[:600]), "tag": e[0]}
    if len(got) > len(exp):
        return {"kind": "events", "detail": "extra event %d: %s" % (len(exp), json.dumps(got[len(exp)])[:300]), "tag": "extra"}
    if not o.get("ok"):
        return {"kind": "outcome", "detail": "expected normal end, got error %s" % o.get("errstr", "")[:200]}
    return None


def build_deadco(tier, rng, n_quick=700, n_sim=300):
    """-> items {family: 'deadco', src, judge, case} from DeadCo.tla: exhaustive short chains (all for thorough, a seeded
    sample for quick) plus random chains of length 5"""
    lines, total = [], [0]
    import hashlib

    def on_line(l):
        total[0] += 1
        if tier != "quick":
            # 60 000 cases of ~15 kB each: keep a seeded 20 % of them (decided per case, independent of TLC's emission order)
            key = "%d|%s" % (seed(), json.dumps([l["chain"], l["err"]], sort_keys=True))
            if int(hashlib.sha1(key.encode()).hexdigest()[:8], 16) % 1000 >= 200:
                return
        lines.append(l)
    res = run_tlc("DeadCoMC", "DeadCoQ.cfg" if tier == "quick" else "DeadCoT.cfg", timeout=1500, on_line=on_line, workers=2 if tier == "quick" else 4)
    total = total[0]
    lines.sort(key=lambda l: json.dumps([l["chain"], l["err"]]))
    if tier == "quick":
        lines = rng.sample(lines, min(n_quick, len(lines)))
    sim = []
    run_tlc("DeadCoMC", "DeadCoSim.cfg", timeout=900, on_line=sim.append, simulate="num=%d" % (n_sim if tier == "quick" else 10 * n_sim), depth=8, workers=1)
    seen, uniq = set(), []
    for l in sim:
        key = json.dumps([l["chain"], l["err"]])
        if key not in seen:
            seen.add(key)
            uniq.append(l)
    sim = rng.sample(uniq, min(len(uniq), 4 * n_sim if tier == "quick" else 40 * n_sim))
    items = []
    for l in lines + sim:
        items.append({"family": "deadco", "src": dc_render(l), "case": {"chain": ["%s%s" % (h["r"], "" if h["f"] == "-" else ":" + h["f"]) for h in l["chain"]], "err": l["err"]},
                      "judge": (lambda o, exp=l["ev"]: dc_judge(o, exp))})
    return items, {"deadco_cases_enumerated": total, "deadco_states": res.distinct, "deadco_exhaustive_used": len(lines), "deadco_random_len5": len(sim)}

"""C11 (last clause): Recovery.tla - a thread catches k errors of one kind, then runs a battery whose result the spec gives."""
import json, os, sys
sys.path.insert(0, os.path.join(os.path.dirname(os.path.abspath(__file__)), "..", "lib"))
from vlib import *

# each raiser is the body of a function RAISE() that ends by an error (it never returns normally)
RAISERS = {
    "error-string": 'error("boom")',
    "error-table": 'error({code = 1})',
    "runtime-arith": 'local x = nil return x + 1',
    "runtime-index": 'local x = nil return x.field',
    "runtime-call": 'local x = 5 return x()',
    "overflow-index": 'local mt = {} mt.__index = function(t, k) return t[k] end return setmetatable({}, mt).x',
    "overflow-add": 'local mt = {} mt.__add = function(a, b) return a + b end return setmetatable({}, mt) + 1',
    "overflow-pcall": 'local function f() local ok, e = pcall(f) if not ok then error(e, 0) end error("bottom", 0) end f()',
    "overflow-sort": 'local function c(a, b) table.sort({3, 2, 1}, c) return a < b end table.sort({3, 2, 1}, c) error("unreachable")',
    "overflow-gsub": 'local function r(s) return (string.gsub(s, ".", r)) end r("a") error("unreachable")',
    "overflow-tostring": 'local mt = {} mt.__tostring = function(a) return tostring(a) end return tostring(setmetatable({}, mt))',
    "overflow-call-chain": 'local x = setmetatable({}, {}) getmetatable(x).__call = x return x()',
    "overflow-close": 'local mt = {} local function f() local x <close> = setmetatable({}, mt) end mt.__close = f f() error("unreachable")',
    "coroutine-error": 'local co = coroutine.create(function() error("in-co") end) local ok, e = coroutine.resume(co) error(e, 0)',
    "wrap-error": 'coroutine.wrap(function() error("in-wrap") end)()',
    "close-handler-error": 'do local x <close> = setmetatable({}, {__close = function() error("in-close") end}) end',
    "xpcall-handler-error": 'local ok, e = xpcall(error, function(m) error(m) end, "x") error(e, 0)',
    "load-syntax-error": 'local f, e = load("x = = 1") error(e, 0)',
    "context-killed": 'local c = runtime.callcontext({kill = {cpu = 200}}, function() while true do end end) error(c.status, 0)',
    "error-in-iterator": 'for k in function() error("in-iter") end do end',
    "error-in-gc-less-metamethod": 'local t = setmetatable({}, {__len = function() error("in-len") end}) return #t',
}

BATTERY = '''
local function depth(n) if n == 0 then return 0 end local ok, v = pcall(depth, n - 1) return v + 1 end
local co = coroutine.wrap(function(a) local b = coroutine.yield(a + 1) return b end)
local first = co(6) co(0)
local closed = 0
do local x <close> = setmetatable({}, {__close = function() closed = closed + 1 end}) end
local t = {3, 1, 2} table.sort(t, function(a, b) return a < b end)
emit("battery", select(2, pcall(function() return 42 end)), "co", first, "meta", #setmetatable({}, {__len = function() return 9 end}),
     "closed", closed, "sorted", t[3], "str", (string.gsub("a-b", "-", function() return "X" end)), "depth", depth(500))
'''


def render(l):
    return ("local function RAISE() %s end\nlocal caught = 0\nfor i = 1, %d do if not pcall(RAISE) then caught = caught + 1 end end\n"
            "emit(\"caught\", caught)\n%s" % (RAISERS[l["raiser"]], l["k"], BATTERY))


def tokv(x):
    return {"i": str(x)} if isinstance(x, int) else {"s": x}


def check(rep, drv, tier):
    cov = rep.cov
    lines = []
    res = run_tlc("Recovery", "RecoveryQ.cfg" if tier == "quick" else "RecoveryT.cfg", timeout=300, on_line=lines.append, workers=1)
    if res.violation:
        raise Infra("Recovery: " + res.violation)
    for l in lines:
        if l["raiser"] not in RAISERS:
            raise Infra("no rendering for raiser " + l["raiser"])
    cases = [{"id": i, "src": render(l), "timeout": 120000} for i, l in enumerate(lines)]
    outs = run_lua_cases(drv, cases)
    cov["recovery_cases"] = len(cases)
    bad = 0
    for i, l in enumerate(lines):
        o = outs[i]
        exp = [[tokv("caught"), tokv(l["caught"])], [tokv(x) for x in l["battery"]]]
        why = None
        if o.get("timeout"):
            why = "hang"
        elif o.get("crash") or o.get("panic"):
            why = "crash"
        elif not o.get("ok"):
            why = "battery-failed"
        elif o.get("events") != exp:
            why = "caught-count" if (o.get("events") or [[None, None]])[0] != exp[0] else "battery-differs"
        if why:
            bad += 1
            rep.violation({"family": "recovery", "raiser": l["raiser"], "why": why, "kclass": "1" if l["k"] == 1 else ("<100" if l["k"] < 100 else (">=1000" if l["k"] >= 1000 else "100..999"))},
                          {"cmd": "lua-run", "src": cases[i]["src"], "expected_events": exp, "observed": o})
    cov["traces_validated_against_impl"] = cov.get("traces_validated_against_impl", 0) + len(cases)
    log("[%s] Recovery: %d cases, %d mismatching" % (rep.prop, len(cases), bad))

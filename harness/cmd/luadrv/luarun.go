package main

// lua-run: compiles and runs Lua chunks on a fresh runtime each, with a host
// callback `emit(...)` recording its arguments; reports the events, the
// returned values or the error, and (when limits are given) the context status.

import (
	"encoding/hex"
	"encoding/json"
	"fmt"
	"io"
	"math"
	"os"
	goruntime "runtime"
	"strconv"
	"strings"
	"sync/atomic"
	"time"
	"unicode/utf8"

	"github.com/arnodel/golua/lib"
	rt "github.com/arnodel/golua/runtime"
)

type lrCase struct {
	ID      int      `json:"id"`
	Src     string   `json:"src"`
	SrcHex  string   `json:"srchex"`
	Name    string   `json:"name"`
	Cpu     uint64   `json:"cpu"`
	Mem     uint64   `json:"mem"`
	Flags   []string `json:"flags"`
	Mode    string   `json:"mode"`    // "", "dump" (run load(string.dump(chunk))), "dump2"
	Timeout int      `json:"timeout"` // ms, default 10000
	NoLibs  bool     `json:"nolibs"`
	MaxEv   int      `json:"maxev"`
	Alloc   bool     `json:"alloc"`      // measure heap allocation of the case
	Heap    bool     `json:"heap"`       // sample the live Go heap while the case runs and report its peak over the baseline
	Sandbox bool     `json:"sandbox"`    // run in a sentinel directory and report file-system changes
	Helpers bool     `json:"helpers"`    // register the __flags helper
	Gor     bool     `json:"gor"`        // report the number of goroutines left behind by the case
	Trace   string   `json:"trace"`      // "", "ctx", "co", "all": record a hook trace (verif builds)
	Raw     bool     `json:"raw"`        // call the chunk with rt.Call directly instead of inside Thread.CallContext
	GorExp  *int     `json:"gor_expect"` // if set, wait (up to 3 s) for that number before reporting
}

type lrOut struct {
	ID      int           `json:"id"`
	Events  []interface{} `json:"events"`
	Ok      bool          `json:"ok"`
	Ret     []interface{} `json:"ret,omitempty"`
	Err     interface{}   `json:"err,omitempty"`
	ErrStr  string        `json:"errstr,omitempty"`
	Compile bool          `json:"compile_error,omitempty"`
	Panic   string        `json:"panic,omitempty"`
	Timeout bool          `json:"timeout,omitempty"`
	Status  string        `json:"status,omitempty"`
	UsedCpu uint64        `json:"used_cpu,omitempty"`
	UsedMem uint64        `json:"used_mem,omitempty"`
	Gor     *int          `json:"goroutines_left,omitempty"`
	Stdout  string        `json:"stdout,omitempty"`
	Trace   []traceEv     `json:"trace,omitempty"`
	FsCh    []string      `json:"fs_changes"`
	DumpOK  *bool         `json:"dump_stable,omitempty"` // mode dump: dump(f) == dump(f) and dump(load(dump(f))) == dump(f)
	Alloc   uint64        `json:"alloc_bytes,omitempty"` // Go heap bytes allocated while the case ran (MemStats.TotalAlloc delta)
	HeapPk  uint64        `json:"heap_peak,omitempty"`   // peak of MemStats.HeapAlloc over the value before the case (sampled every 2 ms)
	WallMs  int64         `json:"wall_ms,omitempty"`
}

// valueCodec turns Lua values into JSON, giving reference values an identity
// number in order of first appearance.
type valueCodec struct {
	ids map[interface{}]int
}

func newCodec() *valueCodec { return &valueCodec{ids: map[interface{}]int{}} }

func (vc *valueCodec) id(k interface{}) int {
	n, ok := vc.ids[k]
	if !ok {
		n = len(vc.ids) + 1
		vc.ids[k] = n
	}
	return n
}

func encStr(s string) interface{} {
	if utf8.ValidString(s) && !strings.ContainsRune(s, 0) {
		return map[string]interface{}{"s": s}
	}
	return map[string]interface{}{"x": hex.EncodeToString([]byte(s))}
}

func encFloat(f float64) string {
	switch {
	case math.IsNaN(f):
		return "nan"
	case math.IsInf(f, 1):
		return "inf"
	case math.IsInf(f, -1):
		return "-inf"
	}
	if f == 0 && math.Signbit(f) {
		return "-0.0"
	}
	s := strconv.FormatFloat(f, 'g', 17, 64)
	return s
}

func (vc *valueCodec) enc(v rt.Value) interface{} {
	if v.IsNil() {
		return nil
	}
	switch v.Type() {
	case rt.BoolType:
		return v.AsBool()
	case rt.IntType:
		return map[string]interface{}{"i": strconv.FormatInt(v.AsInt(), 10)}
	case rt.FloatType:
		return map[string]interface{}{"f": encFloat(v.AsFloat()), "bits": fmt.Sprintf("%016x", math.Float64bits(v.AsFloat()))}
	case rt.StringType:
		return encStr(v.AsString())
	case rt.TableType:
		return map[string]interface{}{"t": vc.id(v.AsTable())}
	case rt.FunctionType:
		return map[string]interface{}{"fn": vc.id(v.Interface())}
	case rt.ThreadType:
		return map[string]interface{}{"co": vc.id(v.AsThread())}
	case rt.UserDataType:
		return map[string]interface{}{"u": vc.id(v.AsUserData())}
	default:
		return map[string]interface{}{"other": v.TypeName()}
	}
}

func (vc *valueCodec) encAll(vs []rt.Value) []interface{} {
	out := make([]interface{}, len(vs))
	for i, v := range vs {
		out[i] = vc.enc(v)
	}
	return out
}

type capWriter struct {
	b   []byte
	max int
}

func (w *capWriter) Write(p []byte) (int, error) {
	if len(w.b) < w.max {
		n := w.max - len(w.b)
		if n > len(p) {
			n = len(p)
		}
		w.b = append(w.b, p[:n]...)
	}
	return len(p), nil
}

var _ io.Writer = (*capWriter)(nil)

func runLuaCase(c *lrCase) (o lrOut) {
	o.ID = c.ID
	o.Events = []interface{}{}
	vc := newCodec()
	stdout := &capWriter{max: 1 << 16}
	r := rt.New(stdout)
	var cleanup func()
	if !c.NoLibs {
		cleanup = lib.LoadAll(r)
	}
	if c.Helpers {
		registerFlagsHelper(r)
		registerResHelper(r, func(ev []interface{}) { o.Events = append(o.Events, ev) })
	}
	if c.Sandbox {
		if sb, e := newSandbox(); e == nil {
			defer func() { o.FsCh = sb.finish() }()
		} else {
			o.Panic = "sandbox: " + e.Error()
			return
		}
	}
	tr := startTrace(c.Trace, r)
	defer func() {
		if tr != nil {
			settledGoroutines() // let dying coroutine goroutines log their last events
		}
		o.Trace = tr.stop()
	}()
	maxEv := c.MaxEv
	if maxEv == 0 {
		maxEv = 10000
	}
	emitFn := rt.NewGoFunction(func(t *rt.Thread, gc *rt.GoCont) (rt.Cont, error) {
		if len(o.Events) < maxEv {
			o.Events = append(o.Events, vc.encAll(gc.Etc()))
		}
		tr.host("host", t.Runtime)
		return gc.Next(), nil
	}, "emit", 0, true)
	emitFn.SolemnlyDeclareCompliance(rt.ComplyCpuSafe | rt.ComplyMemSafe | rt.ComplyIoSafe | rt.ComplyTimeSafe)
	r.SetEnv(r.GlobalEnv(), "emit", rt.FunctionValue(emitFn))

	src := []byte(c.Src)
	if c.SrcHex != "" {
		src, _ = hex.DecodeString(c.SrcHex)
	}
	name := c.Name
	if name == "" {
		name = "chunk"
	}
	t := r.MainThread()
	defer func() {
		if p := recover(); p != nil {
			o.Ok = false
			o.Panic = fmt.Sprint(p)
		}
		o.Stdout = string(stdout.b)
	}()
	limited := c.Cpu > 0 || c.Mem > 0 || len(c.Flags) > 0
	body := func() error {
		clos, err := r.CompileAndLoadLuaChunk(name, src, rt.TableValue(r.GlobalEnv()))
		if err != nil {
			o.Compile = true
			return err
		}
		fv := rt.FunctionValue(clos)
		if c.Mode == "dump" || c.Mode == "dump2" {
			n := 1
			if c.Mode == "dump2" {
				n = 2
			}
			var prevBin []string
			defer func() {
				// dumping the reloaded function must give the same bytes again
				if len(prevBin) == 2 {
					same := prevBin[0] == prevBin[1]
					if o.DumpOK == nil || *o.DumpOK {
						o.DumpOK = &same
					}
				}
			}()
			for i := 0; i < n; i++ {
				dump, e := rt.Index(t, rt.TableValue(r.GlobalEnv()), rt.StringValue("string"))
				if e != nil {
					return e
				}
				dumpf, e := rt.Index(t, dump, rt.StringValue("dump"))
				if e != nil {
					return e
				}
				bin, e := rt.Call1(t, dumpf, fv)
				if e != nil {
					return e
				}
				if bin2, e2 := rt.Call1(t, dumpf, fv); e2 == nil {
					same := bin.AsString() == bin2.AsString()
					if o.DumpOK == nil || *o.DumpOK {
						o.DumpOK = &same
					}
				}
				prevBin = append(prevBin, bin.AsString())
				loadf, _ := rt.Index(t, rt.TableValue(r.GlobalEnv()), rt.StringValue("load"))
				term := rt.NewTerminationWith(nil, 0, true)
				if e := rt.Call(t, loadf, []rt.Value{bin, rt.StringValue(name), rt.StringValue("b")}, term); e != nil {
					return e
				}
				res := term.Etc()
				if len(res) == 0 || res[0].IsNil() {
					return fmt.Errorf("load(dump) failed: %v", res)
				}
				fv = res[0]
			}
		}
		term := rt.NewTerminationWith(nil, 0, true)
		if err := rt.Call(t, fv, nil, term); err != nil {
			return err
		}
		o.Ret = vc.encAll(term.Etc())
		return nil
	}
	var err error
	if limited || !c.Raw {
		// The chunk runs the way quotas.md documents for hosts: inside Thread.CallContext (what pcall
		// does too), so that an error reaching the host still closes pending to-be-closed variables.
		def := rt.RuntimeContextDef{HardLimits: rt.RuntimeResources{Cpu: c.Cpu, Memory: c.Mem}}
		for _, f := range c.Flags {
			def.RequiredFlags, _ = def.RequiredFlags.AddFlagWithName(f)
		}
		var ctx rt.RuntimeContext
		ctx, err = t.CallContext(def, body)
		if limited {
			o.Status = ctx.Status().String()
			u := ctx.UsedResources()
			o.UsedCpu, o.UsedMem = u.Cpu, u.Memory
		}
	} else {
		err = body()
	}
	if err != nil {
		o.Ok = false
		o.ErrStr = err.Error()
		if _, isTerm := err.(rt.ContextTerminationError); !isTerm {
			o.Err = vc.enc(rt.ErrorValue(err))
		}
	} else {
		o.Ok = true
	}
	if cleanup != nil {
		cleanup()
	}
	r.Close(nil)
	return
}

// settledGoroutines returns the number of goroutines once it has stopped changing.
func settledGoroutines() int {
	last, same := goruntime.NumGoroutine(), 0
	for i := 0; i < 400 && same < 3; i++ {
		time.Sleep(200 * time.Microsecond)
		n := goruntime.NumGoroutine()
		if n == last {
			same++
		} else {
			last, same = n, 0
		}
	}
	return last
}

func luaRun(args []string) int {
	return eachLine(func(line []byte) error {
		var c lrCase
		if err := json.Unmarshal(line, &c); err != nil {
			return err
		}
		to := c.Timeout
		if to == 0 {
			to = 10000
		}
		done := make(chan lrOut, 1)
		gorBefore := 0
		if c.Gor {
			gorBefore = settledGoroutines()
		}
		var ms0 goruntime.MemStats
		if c.Alloc {
			goruntime.ReadMemStats(&ms0)
		}
		var heapStop chan struct{}
		var heapPeak chan uint64
		if c.Heap {
			goruntime.GC()
			var b goruntime.MemStats
			goruntime.ReadMemStats(&b)
			heapStop, heapPeak = make(chan struct{}), make(chan uint64, 1)
			go func(base uint64) {
				var peak uint64
				var m goruntime.MemStats
				for {
					goruntime.ReadMemStats(&m)
					if m.HeapAlloc > base && m.HeapAlloc-base > peak {
						peak = m.HeapAlloc - base
					}
					select {
					case <-heapStop:
						heapPeak <- peak
						return
					case <-time.After(2 * time.Millisecond):
					}
				}
			}(b.HeapAlloc)
		}
		t0 := time.Now()
		go func() { done <- runLuaCase(&c) }()
		select {
		case o := <-done:
			o.WallMs = time.Since(t0).Milliseconds()
			if c.Heap {
				close(heapStop)
				o.HeapPk = <-heapPeak
			}
			if c.Alloc {
				var ms1 goruntime.MemStats
				goruntime.ReadMemStats(&ms1)
				o.Alloc = ms1.TotalAlloc - ms0.TotalAlloc
			}
			if c.Gor {
				left := settledGoroutines() - gorBefore
				if c.GorExp != nil {
					for i := 0; i < waitLimit() && left != *c.GorExp; i++ {
						time.Sleep(time.Millisecond)
						waited()
						left = goruntime.NumGoroutine() - gorBefore
					}
				}
				o.Gor = &left
			}
			emit(o)
			out.Flush() // so that a later crash of the process is attributed to the right case
		case <-time.After(time.Duration(to) * time.Millisecond):
			emit(lrOut{ID: c.ID, Timeout: true, Events: []interface{}{}})
			out.Flush()
			// a hung case cannot be cancelled: leave, the orchestrator restarts the driver on the rest
			os.Exit(3)
		}
		return nil
	})
}

// Waiting for goroutines to wind down is bounded per case (3 s) and per driver process: once a minute has been spent
// waiting in vain (a change that leaks goroutines makes every such wait expire) the per-case bound drops to 100 ms.
var waitedMs int64

func waitLimit() int {
	if atomic.LoadInt64(&waitedMs) > 60000 {
		return 100
	}
	return 3000
}

func waited() { atomic.AddInt64(&waitedMs, 1) }

func init() { register("lua-run", luaRun) }

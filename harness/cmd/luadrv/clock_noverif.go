//go:build !verif

package main

func setClock(f func() uint64) {}

//go:build !verif

package main

import rt "github.com/arnodel/golua/runtime"

type traceEv struct{}
type tracer struct{}

func startTrace(mode string, r *rt.Runtime) *tracer { return nil }
func (tr *tracer) stop() []traceEv                  { return nil }
func (tr *tracer) host(kind string, r *rt.Runtime)  {}

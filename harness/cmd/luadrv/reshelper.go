package main

import (
	goruntime "runtime"
	"strconv"
	"time"

	rt "github.com/arnodel/golua/runtime"
)

// resVal is a userdata payload whose release is observable: the runtime must call ReleaseResources exactly once.
type resVal struct {
	id  int64
	rel func(id int64)
}

var _ rt.UserDataResourceReleaser = (*resVal)(nil)

func (v *resVal) ReleaseResources(d *rt.UserData) { v.rel(v.id) }

// registerResHelper adds the global newres(id [, gcfn]): a userdata that records ("release", id) when the runtime
// releases it and has gcfn as its __gc metamethod when given.
func registerResHelper(r *rt.Runtime, addEvent func(ev []interface{})) {
	fn := rt.NewGoFunction(func(t *rt.Thread, c *rt.GoCont) (rt.Cont, error) {
		id, err := c.IntArg(0)
		if err != nil {
			return nil, err
		}
		meta := rt.NewTable()
		if c.NArgs() >= 2 && !c.Arg(1).IsNil() {
			t.SetEnv(meta, "__gc", c.Arg(1))
		}
		v := &resVal{id: id, rel: func(id int64) {
			addEvent([]interface{}{map[string]interface{}{"s": "release"}, map[string]interface{}{"i": strconv.FormatInt(id, 10)}})
		}}
		return c.PushingNext1(t.Runtime, t.NewUserDataValue(v, meta)), nil
	}, "newres", 2, false)
	fn.SolemnlyDeclareCompliance(rt.ComplyCpuSafe | rt.ComplyMemSafe | rt.ComplyIoSafe | rt.ComplyTimeSafe)
	r.SetEnv(r.GlobalEnv(), "newres", rt.FunctionValue(fn))

	// gogc(): run the Go collector and give its finaliser goroutine time to hand every unreachable value over to
	// the runtime's pools, WITHOUT running the pending Lua finalisers (the runtime does that at its next step).
	gogc := rt.NewGoFunction(func(t *rt.Thread, c *rt.GoCont) (rt.Cont, error) {
		for i := 0; i < 2; i++ {
			goruntime.GC()
			time.Sleep(1500 * time.Microsecond)
		}
		return c.Next(), nil
	}, "gogc", 0, false)
	gogc.SolemnlyDeclareCompliance(rt.ComplyCpuSafe | rt.ComplyMemSafe | rt.ComplyIoSafe | rt.ComplyTimeSafe)
	r.SetEnv(r.GlobalEnv(), "gogc", rt.FunctionValue(gogc))
}

package main

// iso-run: several independent runtimes in one process, each running its own chunk; the chunks call step()
// between statements.  mode "seq": the runtimes advance one segment at a time in the order given by the schedule
// (each on its own goroutine, but gated so that exactly one runs at a time); mode "par": they run freely in parallel.

import (
	"encoding/json"
	"fmt"
	"sync"
	"time"

	"github.com/arnodel/golua/lib"
	rt "github.com/arnodel/golua/runtime"
)

type isoCase struct {
	ID      int      `json:"id"`
	Progs   []string `json:"progs"`
	Sched   []int    `json:"sched"`
	Mode    string   `json:"mode"`
	Timeout int      `json:"timeout"`
}

type isoRes struct {
	Events []interface{} `json:"events"`
	Ok     bool          `json:"ok"`
	ErrStr string        `json:"errstr,omitempty"`
	Panic  string        `json:"panic,omitempty"`
}

type isoOut struct {
	ID      int      `json:"id"`
	Res     []isoRes `json:"res"`
	Timeout bool     `json:"timeout,omitempty"`
}

func isoRunOne(src string, gate func()) (res isoRes) {
	res.Events = []interface{}{}
	defer func() {
		if p := recover(); p != nil {
			res.Ok = false
			res.Panic = fmt.Sprint(p)
		}
	}()
	vc := newCodec()
	r := rt.New(&capWriter{max: 1 << 12})
	cleanup := lib.LoadAll(r)
	all := rt.ComplyCpuSafe | rt.ComplyMemSafe | rt.ComplyIoSafe | rt.ComplyTimeSafe
	emitFn := rt.NewGoFunction(func(t *rt.Thread, gc *rt.GoCont) (rt.Cont, error) {
		res.Events = append(res.Events, vc.encAll(gc.Etc()))
		return gc.Next(), nil
	}, "emit", 0, true)
	emitFn.SolemnlyDeclareCompliance(all)
	r.SetEnv(r.GlobalEnv(), "emit", rt.FunctionValue(emitFn))
	stepFn := rt.NewGoFunction(func(t *rt.Thread, gc *rt.GoCont) (rt.Cont, error) {
		gate()
		return gc.Next(), nil
	}, "step", 0, false)
	stepFn.SolemnlyDeclareCompliance(all)
	r.SetEnv(r.GlobalEnv(), "step", rt.FunctionValue(stepFn))
	gate() // wait for the first turn
	t := r.MainThread()
	_, err := t.CallContext(rt.RuntimeContextDef{}, func() error {
		clos, err := r.CompileAndLoadLuaChunk("chunk", []byte(src), rt.TableValue(r.GlobalEnv()))
		if err != nil {
			return err
		}
		return rt.Call(t, rt.FunctionValue(clos), nil, rt.NewTerminationWith(nil, 0, true))
	})
	if err != nil {
		res.ErrStr = err.Error()
	} else {
		res.Ok = true
	}
	if cleanup != nil {
		cleanup()
	}
	r.Close(nil)
	return
}

func isoRun(args []string) int {
	return eachLine(func(line []byte) error {
		var c isoCase
		if err := json.Unmarshal(line, &c); err != nil {
			return err
		}
		n := len(c.Progs)
		out := isoOut{ID: c.ID, Res: make([]isoRes, n)}
		goCh := make([]chan struct{}, n)
		arrived := make([]chan bool, n) // true = finished
		for i := range goCh {
			goCh[i] = make(chan struct{})
			arrived[i] = make(chan bool, 1)
		}
		var wg sync.WaitGroup
		finished := make([]bool, n)
		for i := 0; i < n; i++ {
			wg.Add(1)
			go func(i int) {
				defer wg.Done()
				first := true
				gate := func() {
					if c.Mode == "par" {
						return
					}
					if !first {
						arrived[i] <- false
					}
					first = false
					<-goCh[i]
				}
				out.Res[i] = isoRunOne(c.Progs[i], gate)
				if c.Mode != "par" {
					arrived[i] <- true
				}
			}(i)
		}
		done := make(chan struct{})
		go func() {
			if c.Mode != "par" {
				turn := func(i int) {
					if finished[i] {
						return
					}
					goCh[i] <- struct{}{}
					if <-arrived[i] {
						finished[i] = true
					}
				}
				for _, s := range c.Sched {
					if s >= 0 && s < n {
						turn(s)
					}
				}
				for i := 0; i < n; i++ { // whatever is left runs to completion, one runtime after the other
					for !finished[i] {
						turn(i)
					}
				}
			}
			wg.Wait()
			close(done)
		}()
		to := c.Timeout
		if to == 0 {
			to = 20000
		}
		select {
		case <-done:
		case <-time.After(time.Duration(to) * time.Millisecond):
			out.Timeout = true
			emit(out)
			out2 := out
			_ = out2
			flushAndExit(3)
		}
		emit(out)
		out.Res = nil
		flush()
		return nil
	})
}

func init() { register("iso-run", isoRun) }

package main

// quota-replay: replays behaviours of spec/Quota.tla on the real runtime
// context manager through the exported Runtime API and reports the projected
// state (what the RuntimeContext interface exposes) at the end of the history.

import (
	"encoding/json"
	"errors"
	"fmt"
	"os"
	"strconv"

	rt "github.com/arnodel/golua/runtime"
)

type qDef struct {
	Hc, Hm, Sc, Sm string
	Hms, Sms       string
	Flags          []string
}

type qOp struct {
	Op  string
	N   string
	Lv  string
	Err bool
	Co  int
	Def *qDef
}

type qCase struct {
	ID int
	H  []qOp
}

type qCtx struct {
	Nil    bool     `json:"nil,omitempty"`
	Hc     string   `json:"hc"`
	Hm     string   `json:"hm"`
	Sc     string   `json:"sc"`
	Sm     string   `json:"sm"`
	Uc     string   `json:"uc"`
	Um     string   `json:"um"`
	Hms    string   `json:"hms"`
	Sms    string   `json:"sms"`
	Ums    string   `json:"ums"`
	Status string   `json:"status"`
	Flags  []string `json:"flags"`
	Due    bool     `json:"due"`
}

type qLast struct {
	Op  string `json:"op"`
	Pan string `json:"pan,omitempty"`
	Ret *qCtx  `json:"ret,omitempty"`
	Err string `json:"err,omitempty"`
}

type qObs struct {
	ID      int    `json:"id"`
	Stack   []qCtx `json:"stack"`
	Last    qLast  `json:"last"`
	NFrames int    `json:"nframes"`
	Fail    string `json:"fail,omitempty"`
}

func u64(s string) uint64 {
	if s == "" {
		return 0
	}
	v, err := strconv.ParseUint(s, 10, 64)
	if err != nil {
		panic(err)
	}
	return v
}

func s64(v uint64) string { return strconv.FormatUint(v, 10) }

func projCtx(c rt.RuntimeContext) qCtx {
	h, s, u := c.HardLimits(), c.SoftLimits(), c.UsedResources()
	fl := c.RequiredFlags().Names()
	if fl == nil {
		fl = []string{}
	}
	return qCtx{Hc: s64(h.Cpu), Hm: s64(h.Memory), Sc: s64(s.Cpu), Sm: s64(s.Memory), Uc: s64(u.Cpu), Um: s64(u.Memory),
		Hms: s64(h.Millis), Sms: s64(s.Millis), Ums: s64(u.Millis),
		Status: c.Status().String(), Flags: fl, Due: c.Due()}
}

func projStack(r *rt.Runtime) []qCtx {
	var rev []qCtx
	var c rt.RuntimeContext = r.RuntimeContext()
	for n := 0; n < 64; n++ {
		rev = append(rev, projCtx(c))
		p := c.Parent()
		// Parent() of the root returns a typed nil pointer inside the interface
		if p == nil || isNilCtx(p) {
			break
		}
		c = p
	}
	for i, j := 0, len(rev)-1; i < j; i, j = i+1, j-1 {
		rev[i], rev[j] = rev[j], rev[i]
	}
	return rev
}

func isNilCtx(c rt.RuntimeContext) (isnil bool) {
	defer func() {
		if recover() != nil {
			isnil = true
		}
	}()
	c.Status()
	return false
}

func toDef(d *qDef) rt.RuntimeContextDef {
	def := rt.RuntimeContextDef{
		HardLimits: rt.RuntimeResources{Cpu: u64(d.Hc), Memory: u64(d.Hm), Millis: u64(d.Hms)},
		SoftLimits: rt.RuntimeResources{Cpu: u64(d.Sc), Memory: u64(d.Sm), Millis: u64(d.Sms)},
	}
	for _, f := range d.Flags {
		def.RequiredFlags, _ = def.RequiredFlags.AddFlagWithName(f)
	}
	return def
}

// catch runs f and classifies the panic, if any.
func catch(f func()) (kind string, val interface{}) {
	defer func() {
		if r := recover(); r != nil {
			val = r
			if _, ok := r.(rt.ContextTerminationError); ok {
				kind = "term"
			} else {
				kind = "other"
			}
		}
	}()
	f()
	return "none", nil
}

type qRun struct {
	r     *rt.Runtime
	t     *rt.Thread
	ops   []qOp
	i     int
	depth int
	last  qLast
	snap  *qObs
	clk   uint64 // the virtual clock (ms) read by the runtime context manager through the verif hook

	// coroutines (Quota.tla NCo > 0): each runs body() on its own goroutine through the real Thread API
	cos    map[int]*rt.Thread
	depths map[*rt.Thread]int // CallContext frames in progress per thread
}

// curDepth returns the number of CallContext frames in progress on the running thread.
func (q *qRun) curDepth() int { return q.depths[q.t] }

func (q *qRun) snapshot() {
	if q.snap == nil {
		q.snap = &qObs{Stack: projStack(q.r), Last: q.last, NFrames: q.curDepth()}
	}
}

// body executes ops until the frame ends (returns the error f() returns) or ops
// are exhausted.  Panics raised by operations propagate like in real use.
func (q *qRun) body() error {
	for q.i < len(q.ops) {
		op := q.ops[q.i]
		q.i++
		if os.Getenv("VERIF_QDEBUG") != "" {
			fmt.Fprintf(os.Stderr, "op %d %s thread=%p depth=%d\n", q.i, op.Op, q.t, q.depth)
		}
		switch op.Op {
		case "tick":
			q.clk += u64(op.N)
			q.last = qLast{Op: "tick", Pan: "none"}
		case "push":
			kind, val := catch(func() { q.r.PushContext(toDef(op.Def)) })
			q.last = qLast{Op: "push", Pan: kind}
			q.rethrow(kind, val)
		case "pop":
			var ret rt.RuntimeContext
			kind, val := catch(func() { ret = q.r.PopContext() })
			q.last = qLast{Op: "pop", Pan: kind}
			if kind == "none" {
				c := qCtx{Nil: true}
				if ret != nil && !isNilCtx(ret) {
					c = projCtx(ret)
				}
				q.last.Ret = &c
			}
			q.rethrow(kind, val)
		case "cpu", "mem", "rel", "stop":
			kind, val := catch(func() {
				switch op.Op {
				case "cpu":
					q.r.RequireCPU(u64(op.N))
				case "mem":
					q.r.RequireMem(u64(op.N))
				case "rel":
					q.r.ReleaseMem(u64(op.N))
				case "stop":
					if op.Lv == "hard" {
						q.r.SetStopLevel(rt.HardStop)
					} else {
						q.r.SetStopLevel(rt.SoftStop)
					}
				}
			})
			q.last = qLast{Op: op.Op, Pan: kind}
			q.rethrow(kind, val)
		case "begin":
			q.last = qLast{Op: "begin", Pan: "none"}
			q.depth++
			me := q.t
			q.depths[me]++
			returned, started := false, false
			var (
				ctx rt.RuntimeContext
				err error
			)
			kind, val := catch(func() {
				ctx, err = me.CallContext(toDef(op.Def), func() error {
					started = true
					e := q.body()
					returned = true
					return e
				})
			})
			q.depth--
			q.depths[me]--
			q.t = me
			if q.snap != nil {
				return nil
			}
			name := "unwound"
			if returned {
				name = "end"
			} else if !started {
				name = "begin" // the termination left PushContext: no context was pushed, f never ran
			}
			if kind != "none" {
				q.last = qLast{Op: name, Pan: kind}
				q.rethrow(kind, val)
			} else {
				c := projCtx(ctx)
				q.last = qLast{Op: name, Pan: "none", Ret: &c, Err: "none"}
				if err != nil {
					if _, ok := err.(rt.ContextTerminationError); ok {
						q.last.Err = "term"
					} else {
						q.last.Err = "lua"
					}
				}
			}
		case "end":
			if q.depth == 0 {
				panic("end without frame")
			}
			if op.Err {
				return errors.New("lua error")
			}
			return nil
		case "costart", "resume":
			var co *rt.Thread
			if op.Op == "costart" {
				co = rt.NewThread(q.r)
				q.cos[op.Co] = co
				bodyFn := rt.NewGoFunction(func(t *rt.Thread, c *rt.GoCont) (rt.Cont, error) {
					q.t = t
					if os.Getenv("VERIF_QDEBUG") != "" {
						fmt.Fprintf(os.Stderr, "cobody starts thread=%p\n", t)
					}
					err := q.body()
					return c.Next(), err
				}, "cobody", 0, false)
				bodyFn.SolemnlyDeclareCompliance(rt.ComplyCpuSafe | rt.ComplyMemSafe | rt.ComplyIoSafe | rt.ComplyTimeSafe)
				co.Start(bodyFn)
			} else {
				co = q.cos[op.Co]
			}
			me := q.t
			q.last = qLast{Op: op.Op, Pan: "none"}
			_, rerr := co.Resume(me, nil)
			if rerr != nil {
				panic("resume failed: " + rerr.Error())
			}
			q.t = me
			if q.snap != nil {
				return nil
			}
			// the coroutine yielded or ended: the model logged that as its own step ("yield" / "coend")
		case "yield":
			q.last = qLast{Op: "yield", Pan: "none"}
			me := q.t
			if _, err := me.Yield(nil); err != nil {
				panic("yield failed: " + err.Error())
			}
			q.t = me
			if q.snap != nil {
				return nil
			}
		case "coend":
			q.last = qLast{Op: "coend", Pan: "none"}
			return nil
		case "unwind":
			// performed by Go itself while the panic propagates
		default:
			panic("unknown op " + op.Op)
		}
	}
	q.snapshot()
	return nil
}

func (q *qRun) rethrow(kind string, val interface{}) {
	if kind != "none" && q.depth > 0 {
		panic(val)
	}
}

func quotaReplay(args []string) int {
	return eachLine(func(line []byte) error {
		var c qCase
		if err := json.Unmarshal(line, &c); err != nil {
			return err
		}
		r := rt.New(nil)
		q := &qRun{r: r, t: r.MainThread(), ops: c.H, cos: map[int]*rt.Thread{}, depths: map[*rt.Thread]int{}}
		setClock(func() uint64 { return q.clk })
		kind, val := catch(func() { q.body() })
		for _, co := range q.cos { // do not leave parked goroutines behind
			if co.Status() == rt.ThreadSuspended {
				catch(func() { co.Close(r.MainThread()) })
			}
		}
		obs := qObs{ID: c.ID}
		if q.snap != nil {
			obs = *q.snap
			obs.ID = c.ID
		} else {
			obs.Fail = "no snapshot: " + kind
			if val != nil {
				if e, ok := val.(error); ok {
					obs.Fail += " " + e.Error()
				} else if s, ok := val.(string); ok {
					obs.Fail += " " + s
				}
			}
		}
		emit(obs)
		return nil
	})
}

func init() { register("quota-replay", quotaReplay) }

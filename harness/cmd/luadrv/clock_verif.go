//go:build verif

package main

import rt "github.com/arnodel/golua/runtime"

// setClock installs a virtual clock (ms) for the runtime context manager.
func setClock(f func() uint64) { rt.VerifNowHook = f }

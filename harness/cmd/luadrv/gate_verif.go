//go:build verif

package main

import (
	"strings"

	rt "github.com/arnodel/golua/runtime"
)

// registerFlagsHelper adds the global __flags(f): the compliance flags a Go function declared
// ("" for none), or nil when f is not a Go function.
func registerFlagsHelper(r *rt.Runtime) {
	fn := rt.NewGoFunction(func(t *rt.Thread, c *rt.GoCont) (rt.Cont, error) {
		next := c.Next()
		if c.NArgs() >= 1 {
			if gf, ok := c.Arg(0).Interface().(*rt.GoFunction); ok {
				t.Push1(next, rt.StringValue(strings.Join(gf.VerifSafetyFlags().Names(), " ")))
				t.Push1(next, rt.StringValue(gf.VerifName()))
				return next, nil
			}
		}
		t.Push1(next, rt.NilValue)
		return next, nil
	}, "__flags", 1, false)
	fn.SolemnlyDeclareCompliance(rt.ComplyCpuSafe | rt.ComplyMemSafe | rt.ComplyIoSafe | rt.ComplyTimeSafe)
	r.SetEnv(r.GlobalEnv(), "__flags", rt.FunctionValue(fn))
}

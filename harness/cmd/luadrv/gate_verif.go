//go:build verif

package main

import (
	"fmt"
	"strings"

	rt "github.com/arnodel/golua/runtime"
)

// registerFlagsHelper adds the global __flags(f): the compliance flags a Go function declared
// ("" for none), or nil when f is not a Go function.
func registerFlagsHelper(r *rt.Runtime) {
	fn := rt.NewGoFunction(func(t *rt.Thread, c *rt.GoCont) (rt.Cont, error) {
		next := c.Next()
		if c.NArgs() >= 1 {
			if gf, ok := c.Arg(0).Interface().(*rt.GoFunction); ok {
				t.Push1(next, rt.StringValue(strings.Join(gf.VerifSafetyFlags().Names(), " ")))
				t.Push1(next, rt.StringValue(gf.VerifName()))
				return next, nil
			}
		}
		t.Push1(next, rt.NilValue)
		return next, nil
	}, "__flags", 1, false)
	fn.SolemnlyDeclareCompliance(rt.ComplyCpuSafe | rt.ComplyMemSafe | rt.ComplyIoSafe | rt.ComplyTimeSafe)
	r.SetEnv(r.GlobalEnv(), "__flags", rt.FunctionValue(fn))
	registerProbeHelper(r)
}

// registerProbeHelper adds the global __probe(flags, id [, ret]): a NEW Go function named "probe" that has declared
// exactly the compliance flags named in the string flags.  Whenever it runs (whatever its arguments, from whatever
// thread) it records the event ("probe", id) through the global emit and returns ret.  It has no other effect, so
// "the gate let the function run" is directly observable on every route by which a Go function can be reached.
func registerProbeHelper(r *rt.Runtime) {
	mk := rt.NewGoFunction(func(t *rt.Thread, c *rt.GoCont) (rt.Cont, error) {
		names, err := c.StringArg(0)
		if err != nil {
			return nil, err
		}
		var declared rt.ComplianceFlags
		for _, nm := range strings.Fields(names) {
			var ok bool
			if declared, ok = declared.AddFlagWithName(nm); !ok {
				return nil, fmt.Errorf("__probe: unknown flag %q", nm)
			}
		}
		id := rt.NilValue
		if c.NArgs() >= 2 {
			id = c.Arg(1)
		}
		ret := rt.NilValue
		if c.NArgs() >= 3 {
			ret = c.Arg(2)
		}
		probe := rt.NewGoFunction(func(t *rt.Thread, c *rt.GoCont) (rt.Cont, error) {
			emitV := t.GlobalEnv().Get(rt.StringValue("emit"))
			if !emitV.IsNil() {
				term := rt.NewTerminationWith(nil, 0, false)
				if err := rt.Call(t, emitV, []rt.Value{rt.StringValue("probe"), id}, term); err != nil {
					return nil, err
				}
			}
			next := c.Next()
			if !ret.IsNil() {
				t.Push1(next, ret)
			}
			return next, nil
		}, "probe", 0, true)
		probe.SolemnlyDeclareCompliance(declared)
		return c.PushingNext1(t.Runtime, rt.FunctionValue(probe)), nil
	}, "__probe", 3, false)
	mk.SolemnlyDeclareCompliance(rt.ComplyCpuSafe | rt.ComplyMemSafe | rt.ComplyIoSafe | rt.ComplyTimeSafe)
	r.SetEnv(r.GlobalEnv(), "__probe", rt.FunctionValue(mk))
}

//go:build !verif

package main

import rt "github.com/arnodel/golua/runtime"

func registerFlagsHelper(r *rt.Runtime) {}

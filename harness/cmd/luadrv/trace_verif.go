//go:build verif

package main

// Trace recording through the verif hooks of /repo/runtime (build tag verif).

import (
	"bytes"
	goruntime "runtime"
	"strconv"
	"sync"
	"time"

	rt "github.com/arnodel/golua/runtime"
)

type traceEv struct {
	K  string `json:"k"`            // event kind
	G  int    `json:"g"`            // goroutine (index by first appearance)
	Th int    `json:"th,omitempty"` // thread (index by first appearance; 1 = main thread of the runtime)
	O  int    `json:"o,omitempty"`  // the other thread of the event
	D  int    `json:"d,omitempty"`  // depth of the context stack (1 = root)
	St string `json:"st,omitempty"` // status of the context
	Hc uint64 `json:"hc"`
	Hm uint64 `json:"hm"`
	Sc uint64 `json:"sc"`
	Sm uint64 `json:"sm"`
	Uc uint64 `json:"uc"`
	Um uint64 `json:"um"`
	A  uint64 `json:"a,omitempty"` // amount
	// requested definition, for push
	Dhc uint64   `json:"dhc,omitempty"`
	Dhm uint64   `json:"dhm,omitempty"`
	Dsc uint64   `json:"dsc,omitempty"`
	Dsm uint64   `json:"dsm,omitempty"`
	Fl  []string `json:"fl,omitempty"`
	Dfl []string `json:"dfl,omitempty"`
	Puc uint64   `json:"puc,omitempty"` // push: used counters of the parent at the time of the push
	Pum uint64   `json:"pum,omitempty"`
}

type tracer struct {
	mu      sync.Mutex
	evs     []traceEv
	gids    map[int64]int
	threads map[*rt.Thread]int
	wantCtx bool
	wantMem bool
	wantCo  bool
	max     int
	nDead   int
	nExit   int
}

func goid() int64 {
	var buf [64]byte
	n := goruntime.Stack(buf[:], false)
	// "goroutine 123 [running]:..."
	b := buf[:n]
	b = b[len("goroutine "):]
	i := bytes.IndexByte(b, ' ')
	id, _ := strconv.ParseInt(string(b[:i]), 10, 64)
	return id
}

func (tr *tracer) gidx() int {
	id := goid()
	n, ok := tr.gids[id]
	if !ok {
		n = len(tr.gids) + 1
		tr.gids[id] = n
	}
	return n
}

func (tr *tracer) tidx(t *rt.Thread) int {
	if t == nil {
		return 0
	}
	n, ok := tr.threads[t]
	if !ok {
		n = len(tr.threads) + 1
		tr.threads[t] = n
	}
	return n
}

func ctxDepth(c rt.RuntimeContext) int {
	d := 0
	for n := 0; n < 1000; n++ {
		d++
		p := c.Parent()
		if p == nil || isNilCtx(p) {
			break
		}
		c = p
	}
	return d
}

func (tr *tracer) ctxHook(kind string, ctx rt.RuntimeContext, def *rt.RuntimeContextDef, a, b uint64) {
	isMem := kind == "mem.req" || kind == "mem.rel"
	if isMem && !tr.wantMem {
		return
	}
	if !isMem && !tr.wantCtx {
		return
	}
	tr.mu.Lock()
	defer tr.mu.Unlock()
	if len(tr.evs) >= tr.max {
		return
	}
	h, s, u := ctx.HardLimits(), ctx.SoftLimits(), ctx.UsedResources()
	ev := traceEv{K: kind, G: tr.gidx(), St: ctx.Status().String(), Hc: h.Cpu, Hm: h.Memory, Sc: s.Cpu, Sm: s.Memory,
		Uc: u.Cpu, Um: u.Memory, A: a}
	if !isMem {
		ev.D = ctxDepth(ctx)
		ev.Fl = ctx.RequiredFlags().Names()
	}
	if def != nil {
		ev.Dhc, ev.Dhm, ev.Dsc, ev.Dsm = def.HardLimits.Cpu, def.HardLimits.Memory, def.SoftLimits.Cpu, def.SoftLimits.Memory
		ev.Dfl = def.RequiredFlags.Names()
		if p := ctx.Parent(); p != nil && !isNilCtx(p) {
			pu := p.UsedResources()
			ev.Puc, ev.Pum = pu.Cpu, pu.Memory
		}
	}
	tr.evs = append(tr.evs, ev)
}

func (tr *tracer) threadHook(kind string, t *rt.Thread, other *rt.Thread) {
	if !tr.wantCo {
		return
	}
	tr.mu.Lock()
	defer tr.mu.Unlock()
	if len(tr.evs) >= tr.max {
		return
	}
	if kind == "dead" {
		tr.nDead++
	} else if kind == "exit" {
		tr.nExit++
	}
	tr.evs = append(tr.evs, traceEv{K: kind, G: tr.gidx(), Th: tr.tidx(t), O: tr.tidx(other)})
}

// host records an event of the harness itself (e.g. a call of emit) in the trace.
func (tr *tracer) host(kind string, r *rt.Runtime) {
	if tr == nil || !tr.wantCtx {
		return
	}
	tr.ctxHook(kind, r.RuntimeContext(), nil, 0, 0)
}

var traceMu sync.Mutex

// startTrace installs the hooks (one traced case at a time per process).
func startTrace(mode string, r *rt.Runtime) *tracer {
	if mode == "" {
		return nil
	}
	tr := &tracer{gids: map[int64]int{}, threads: map[*rt.Thread]int{}, max: 200000}
	switch mode {
	case "ctx":
		tr.wantCtx = true
	case "co":
		tr.wantCo, tr.wantMem = true, true
	case "all":
		tr.wantCtx, tr.wantCo, tr.wantMem = true, true, true
	}
	tr.tidx(r.MainThread())
	traceMu.Lock()
	rt.VerifCtxHook = tr.ctxHook
	rt.VerifThreadHook = tr.threadHook
	return tr
}

func (tr *tracer) stop() []traceEv {
	if tr == nil {
		return nil
	}
	// a dying coroutine logs "exit" after it has handed control back: give it time (bounded) to do so
	for i := 0; i < waitLimit(); i++ {
		tr.mu.Lock()
		done := tr.nExit >= tr.nDead
		tr.mu.Unlock()
		if done {
			break
		}
		time.Sleep(time.Millisecond)
		waited()
	}
	rt.VerifCtxHook = nil
	rt.VerifThreadHook = nil
	traceMu.Unlock()
	tr.mu.Lock()
	defer tr.mu.Unlock()
	return tr.evs
}

// luadrv is the single conformance driver of /verif: one sub-command per
// specification, JSON lines on stdin and stdout.  It is rebuilt by every check
// from /repo's current working tree.
package main

import (
	"bufio"
	"encoding/json"
	"fmt"
	"os"
	"runtime/debug"
	"sort"
	"strconv"
	"syscall"
)

type subcmd func(args []string) int

var subcmds = map[string]subcmd{}

func register(name string, f subcmd) { subcmds[name] = f }

func main() {
	if len(os.Args) < 2 {
		names := []string{}
		for k := range subcmds {
			names = append(names, k)
		}
		sort.Strings(names)
		fmt.Fprintln(os.Stderr, "usage: luadrv <subcommand> [args]; subcommands:", names)
		os.Exit(2)
	}
	// A smaller maximum goroutine stack than Go's 1 GB default, so that unbounded recursion on the Go stack is
	// reported (fatal "stack overflow") within seconds; it is far above what any bounded program needs.
	maxStack := 512 << 20
	if v, err := strconv.Atoi(os.Getenv("VERIF_MAXSTACK_MB")); err == nil && v > 0 {
		maxStack = v << 20
	}
	debug.SetMaxStack(maxStack)
	f, ok := subcmds[os.Args[1]]
	if !ok {
		fmt.Fprintln(os.Stderr, "unknown subcommand", os.Args[1])
		os.Exit(2)
	}
	os.Exit(f(os.Args[2:]))
}

// eachLine decodes each stdin line into a fresh value produced by mk and calls f.
func eachLine(f func(line []byte) error) int {
	in := bufio.NewReaderSize(os.Stdin, 1<<20)
	// Lua code under test must never consume the driver's own input: from now on os.Stdin is /dev/null
	if devnull, err := os.Open(os.DevNull); err == nil {
		os.Stdin = devnull
	}
	for {
		line, err := in.ReadBytes('\n')
		if len(line) > 1 {
			if e := f(line); e != nil {
				fmt.Fprintln(os.Stderr, "driver error:", e)
				return 2
			}
		}
		if err != nil {
			break
		}
	}
	out.Flush()
	return 0
}

// The driver's own output goes to a private duplicate of fd 1; os.Stdout (which Lua code under test can
// write to and even close through the io library) is redirected to /dev/null.
var out = func() *bufio.Writer {
	w := os.Stdout
	if fd, err := syscall.Dup(1); err == nil {
		w = os.NewFile(uintptr(fd), "driver-out")
		if devnull, err := os.OpenFile(os.DevNull, os.O_WRONLY, 0); err == nil {
			os.Stdout = devnull
		}
	}
	return bufio.NewWriterSize(w, 1<<20)
}()

func emit(v interface{}) {
	b, err := json.Marshal(v)
	if err != nil {
		panic(err)
	}
	out.Write(b)
	out.WriteByte('\n')
}

func flush() { out.Flush() }

func flushAndExit(code int) {
	out.Flush()
	os.Exit(code)
}

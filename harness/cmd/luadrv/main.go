// luadrv is the single conformance driver of /verif: one sub-command per
// specification, JSON lines on stdin and stdout.  It is rebuilt by every check
// from /repo's current working tree.
package main

import (
	"bufio"
	"encoding/json"
	"fmt"
	"os"
	"sort"
)

type subcmd func(args []string) int

var subcmds = map[string]subcmd{}

func register(name string, f subcmd) { subcmds[name] = f }

func main() {
	if len(os.Args) < 2 {
		names := []string{}
		for k := range subcmds {
			names = append(names, k)
		}
		sort.Strings(names)
		fmt.Fprintln(os.Stderr, "usage: luadrv <subcommand> [args]; subcommands:", names)
		os.Exit(2)
	}
	f, ok := subcmds[os.Args[1]]
	if !ok {
		fmt.Fprintln(os.Stderr, "unknown subcommand", os.Args[1])
		os.Exit(2)
	}
	os.Exit(f(os.Args[2:]))
}

// eachLine decodes each stdin line into a fresh value produced by mk and calls f.
func eachLine(f func(line []byte) error) int {
	in := bufio.NewReaderSize(os.Stdin, 1<<20)
	for {
		line, err := in.ReadBytes('\n')
		if len(line) > 1 {
			if e := f(line); e != nil {
				fmt.Fprintln(os.Stderr, "driver error:", e)
				return 2
			}
		}
		if err != nil {
			break
		}
	}
	out.Flush()
	return 0
}

var out = bufio.NewWriterSize(os.Stdout, 1<<20)

func emit(v interface{}) {
	b, err := json.Marshal(v)
	if err != nil {
		panic(err)
	}
	out.Write(b)
	out.WriteByte('\n')
}

package main

// A sentinel directory for effect observation: lua-run cases with "sandbox":true run with the process's
// working directory set to a fresh directory holding a few known files; every difference between the
// directory before and after the case is reported.

import (
	"crypto/sha1"
	"fmt"
	"io/ioutil"
	"os"
	"path/filepath"
	"sort"
)

type sandbox struct {
	dir    string
	oldwd  string
	before map[string]string
}

func snapshotDir(dir string) map[string]string {
	m := map[string]string{}
	filepath.Walk(dir, func(p string, info os.FileInfo, err error) error {
		if err != nil || p == dir {
			return nil
		}
		rel, _ := filepath.Rel(dir, p)
		if info.IsDir() {
			m[rel] = "dir"
			return nil
		}
		b, e := ioutil.ReadFile(p)
		if e != nil {
			m[rel] = "unreadable"
			return nil
		}
		m[rel] = fmt.Sprintf("%x:%o", sha1.Sum(b), info.Mode().Perm())
		return nil
	})
	return m
}

func newSandbox() (*sandbox, error) {
	dir, err := ioutil.TempDir("", "luadrv-sandbox-")
	if err != nil {
		return nil, err
	}
	ioutil.WriteFile(filepath.Join(dir, "existing.txt"), []byte("line1\nline2\n"), 0644)
	// a module that package.searchers[2] finds, so that the loader function it returns can be inventoried
	ioutil.WriteFile(filepath.Join(dir, "existingmod.lua"), []byte("emit(\"MODULE-RAN\") return 1\n"), 0644)
	ioutil.WriteFile(filepath.Join(dir, "mod.lua"), []byte("return {loaded = true}\n"), 0644)
	os.Mkdir(filepath.Join(dir, "sub"), 0755)
	ioutil.WriteFile(filepath.Join(dir, "sub", "inner.txt"), []byte("inner\n"), 0644)
	old, _ := os.Getwd()
	if err := os.Chdir(dir); err != nil {
		return nil, err
	}
	return &sandbox{dir: dir, oldwd: old, before: snapshotDir(dir)}, nil
}

// finish returns the changes and removes the directory.
func (s *sandbox) finish() []string {
	after := snapshotDir(s.dir)
	var ch []string
	for k, v := range after {
		if b, ok := s.before[k]; !ok {
			ch = append(ch, "created:"+k)
		} else if b != v {
			ch = append(ch, "modified:"+k)
		}
	}
	for k := range s.before {
		if _, ok := after[k]; !ok {
			ch = append(ch, "deleted:"+k)
		}
	}
	sort.Strings(ch)
	os.Chdir(s.oldwd)
	os.RemoveAll(s.dir)
	return ch
}
